#!/bin/bash
# tools_seeded_scratch.sh <slot> <seeded-dir> [checks...]: like tools_seeded.sh, but the patch is applied to a scratch
# worktree of /repo's HEAD (/tmp/repo-<slot>) and the checks run from a scratch copy of the machinery (tools_dev.sh),
# so that several changes can be run in parallel and /repo itself stays untouched. Same binary, same plans, same
# oracles; detection.json records which way an entry was obtained.
set -u
S=$1; shift
D="$(cd "$1" && pwd)"; shift
CHECKS="${*:-C01 C02 C03 C04 C05 C06 C07 C08 C11 C12 C13 C16 C17 C18 C19 C20}"
OUT="$D/detection.json"; TMPR=$(mktemp)
for c in $CHECKS; do
  log=$(DEV_SLOT=$S DEV_SRC=${DEV_SRC:-/tmp/vdet} DEV_PATCH=$D/patch.diff /verif/tools_dev.sh "$c" quick 2>&1); code=$?
  v=$(echo "$log" | grep -m1 "^violation:" | cut -c1-400)
  printf '%s\t%d\t%s\n' "$c" "$code" "$v" >> "$TMPR"
  echo "$(basename $D) $c exit=$code $v"
done
python3 - "$OUT" "$TMPR" <<'PY'
import json, sys, os
out, tmp = sys.argv[1], sys.argv[2]
d = {}
if os.path.exists(out):
    try: d = json.load(open(out))
    except Exception: d = {}
for line in open(tmp, encoding="utf-8", errors="replace"):
    c, code, v = line.rstrip("\n").split("\t", 2)
    d[c] = {"exit": int(code), "first_violation": v, "how": "patch applied to a scratch worktree of /repo's HEAD (tools_seeded_scratch.sh)"}
json.dump(dict(sorted(d.items())), open(out, "w"), indent=1)
PY
rm -f "$TMPR"
