//! vreal: C14 with the REAL rayon. Everything here is real code: rayon-core's work-stealing pool,
//! the library's ParallelSumMultithreaded and Prio3*Multithreaded types. The thread schedule is
//! decided by the OS (native mode; uncontrolled, supplementary) or by Miri's seeded scheduler
//! (`cargo +nightly miri run`, one -Zmiri-seed = one exactly repeatable schedule).
//!
//! usage: vreal <mode: gadget|prio3|both> <seed> <iterations> <max_threads>
//! prints one line per comparison "T <trace-hash>" and a final "OK <n>" or "MISMATCH <detail>".

use prio::field::{Field128, FieldElement};
use prio::flp::gadgets::{Mul, ParallelSum, ParallelSumGadget, ParallelSumMultithreaded};
use prio::flp::{FlpError, Gadget};
use prio::vdaf::prio3::{Prio3, Prio3Histogram, Prio3HistogramMultithreaded, Prio3SumVec, Prio3SumVecMultithreaded, Prio3MultihotCountVec, Prio3MultihotCountVecMultithreaded};
use prio::vdaf::test_utils::TestVectorClient;
use prio::vdaf::Aggregator;
use prio::codec::Encode;
use std::sync::Mutex;

static LOG: Mutex<Vec<(u64, u64)>> = Mutex::new(Vec::new());

fn splitmix(s: &mut u64) -> u64 {
    *s = s.wrapping_add(0x9E37_79B9_7F4A_7C15);
    let mut z = *s;
    z = (z ^ (z >> 30)).wrapping_mul(0xBF58_476D_1CE4_E5B9);
    z = (z ^ (z >> 27)).wrapping_mul(0x94D0_49BB_1331_11EB);
    z ^ (z >> 31)
}

fn thread_tag() -> u64 {
    rayon::current_thread_index().map(|i| i as u64).unwrap_or(99)
}

/// Mul that records (thread index, chunk hash) for every eval_poly call.
#[derive(Clone, Debug, PartialEq, Eq)]
struct TracingMul(Mul);
impl Gadget<Field128> for TracingMul {
    fn eval(&mut self, inp: &[Field128]) -> Result<Field128, FlpError> {
        self.0.eval(inp)
    }
    fn eval_poly(&self, outp: &mut [Field128], inp: &[Vec<Field128>]) -> Result<(), FlpError> {
        let mut h: u64 = 0xcbf29ce484222325;
        for v in inp {
            for x in v {
                for b in x.get_encoded().unwrap() {
                    h ^= b as u64;
                    h = h.wrapping_mul(0x100000001b3);
                }
            }
        }
        LOG.lock().unwrap().push((thread_tag(), h));
        <Mul as Gadget<Field128>>::eval_poly(&self.0, outp, inp)
    }
    fn arity(&self) -> usize {
        2
    }
    fn degree(&self) -> usize {
        2
    }
    fn calls(&self) -> usize {
        <Mul as Gadget<Field128>>::calls(&self.0)
    }
    fn as_any(&mut self) -> &mut dyn std::any::Any {
        self
    }
}

fn gadget_case(s: &mut u64, threads: usize) -> Result<u64, String> {
    let chunks = 1 + (splitmix(s) % 24) as usize;
    let n = [2usize, 2, 4, 8][(splitmix(s) % 4) as usize];
    let inp: Vec<Vec<Field128>> = (0..2 * chunks).map(|_| (0..n).map(|_| Field128::from(((splitmix(s) as u128) << 64 | splitmix(s) as u128) % 340282366920938462946865773367900766209u128)).collect()).collect();
    let serial: ParallelSum<Field128, Mul> = ParallelSumGadget::new(Mul::new(n - 1), chunks);
    let par: ParallelSumMultithreaded<Field128, TracingMul> = ParallelSumGadget::new(TracingMul(Mul::new(n - 1)), chunks);
    let mut a = vec![Field128::zero(); 2 * n];
    let mut b = vec![Field128::one(); 2 * n];
    serial.eval_poly(&mut a, &inp).map_err(|e| e.to_string())?;
    LOG.lock().unwrap().clear();
    let pool = rayon::ThreadPoolBuilder::new().num_threads(threads).build().map_err(|e| e.to_string())?;
    pool.install(|| par.eval_poly(&mut b, &inp)).map_err(|e| e.to_string())?;
    drop(pool);
    let log = std::mem::take(&mut *LOG.lock().unwrap());
    if log.len() != chunks {
        return Err(format!("gadget: {} chunk evaluations, expected {chunks}", log.len()));
    }
    if a != b {
        return Err(format!("gadget: multithreaded eval_poly differs from serial (chunks {chunks}, wire length {n}, {threads} threads)"));
    }
    let mut h: u64 = 1469598103934665603;
    for (t, c) in &log {
        h = (h ^ t).wrapping_mul(0x100000001b3);
        h = (h ^ c).wrapping_mul(0x100000001b3);
    }
    Ok(h)
}

fn prio3_case(s: &mut u64, threads: usize) -> Result<u64, String> {
    let which = splitmix(s) % 3;
    // natively (pools larger than Miri's 4 threads) also use long vectors with chunk lengths around
    // and above 64, so that many chunks are in flight per pool
    let big = threads > 4 && splitmix(s) % 3 == 0;
    let len = if big { 60 + (splitmix(s) % 80) as usize } else { 1 + (splitmix(s) % 9) as usize };
    let chunk = if big { 56 + (splitmix(s) % 24) as usize } else { 1 + (splitmix(s) % (len as u64 + 1)) as usize };
    let mut rand = vec![0u8; 2 * 2 * 32];
    for b in rand.iter_mut() {
        *b = splitmix(s) as u8;
    }
    let nonce = [splitmix(s) as u8; 16];
    let vk = [splitmix(s) as u8; 32];
    let pool = rayon::ThreadPoolBuilder::new().num_threads(threads).build().map_err(|e| e.to_string())?;
    macro_rules! cmp {
        ($ser:expr, $par:expr, $m:expr) => {{
            let ser = $ser.map_err(|e| e.to_string())?;
            let par = $par.map_err(|e| e.to_string())?;
            let (p1, i1) = ser.shard_with_random(b"ctx", &$m, &nonce, &rand).map_err(|e| e.to_string())?;
            let (p2, i2) = pool.install(|| par.shard_with_random(b"ctx", &$m, &nonce, &rand)).map_err(|e| e.to_string())?;
            if p1.get_encoded().unwrap() != p2.get_encoded().unwrap() {
                return Err("prio3: public shares differ".into());
            }
            let mut h: u64 = 7;
            for j in 0..2 {
                if i1[j].get_encoded().unwrap() != i2[j].get_encoded().unwrap() {
                    return Err(format!("prio3: input share {j} differs"));
                }
                let (_, v1) = ser.verify_init(&vk, b"ctx", j, &(), &nonce, &p1, &i1[j]).map_err(|e| e.to_string())?;
                let (_, v2) = pool.install(|| par.verify_init(&vk, b"ctx", j, &(), &nonce, &p2, &i2[j])).map_err(|e| e.to_string())?;
                let (b1, b2) = (v1.get_encoded().unwrap(), v2.get_encoded().unwrap());
                if b1 != b2 {
                    return Err(format!("prio3: verifier share {j} differs"));
                }
                for b in b1 {
                    h = (h ^ b as u64).wrapping_mul(0x100000001b3);
                }
            }
            h
        }};
    }
    let h = match which {
        0 => {
            let m: Vec<u128> = (0..len).map(|_| (splitmix(s) % 4) as u128).collect();
            cmp!(Prio3::new_sum_vec(2, 3, len, chunk), Prio3::new_sum_vec_multithreaded(2, 3, len, chunk), m)
        }
        1 => {
            let m = (splitmix(s) % len as u64) as usize;
            cmp!(Prio3::new_histogram(2, len, chunk), Prio3::new_histogram_multithreaded(2, len, chunk), m)
        }
        _ => {
            let mut m = vec![false; len];
            m[(splitmix(s) % len as u64) as usize] = true;
            cmp!(Prio3::new_multihot_count_vec(2, len, 2, chunk), Prio3::new_multihot_count_vec_multithreaded(2, len, 2, chunk), m)
        }
    };
    let _: Option<(Prio3SumVec, Prio3SumVecMultithreaded, Prio3Histogram, Prio3HistogramMultithreaded, Prio3MultihotCountVec, Prio3MultihotCountVecMultithreaded)> = None;
    Ok(h)
}

fn main() {
    let args: Vec<String> = std::env::args().collect();
    let mode = args.get(1).map(|s| s.as_str()).unwrap_or("both").to_string();
    let seed: u64 = args.get(2).and_then(|s| s.parse().ok()).unwrap_or(1);
    let iters: u64 = args.get(3).and_then(|s| s.parse().ok()).unwrap_or(4);
    let max_threads: usize = args.get(4).and_then(|s| s.parse().ok()).unwrap_or(4);
    let mut s = seed.wrapping_mul(0x2545F4914F6CDD1D) ^ 0xC14;
    let mut n = 0;
    for i in 0..iters {
        let threads = 1 + (splitmix(&mut s) as usize % max_threads);
        let r = match (mode.as_str(), i % 2) {
            ("gadget", _) | ("both", 0) => gadget_case(&mut s, threads),
            _ => prio3_case(&mut s, threads),
        };
        match r {
            Ok(h) => {
                println!("T {seed} {i} {threads} {h:016x}");
                n += 1;
            }
            Err(e) => {
                println!("MISMATCH seed={seed} iteration={i} threads={threads} {e}");
                std::process::exit(1);
            }
        }
    }
    println!("OK {n}");
}
