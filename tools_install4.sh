#!/bin/bash
# tools_install4.sh <PROP>: round-4 variant of tools_install.sh (worktree /tmp/wt4-<PROP>, changes G and H)
set -u
P=$1; W=/tmp/wt4-$P
for L in G H; do
  [ -d $W/OUT/$L ] || { echo "no $W/OUT/$L"; continue; }
  D=/verif/seeded/$P$L; mkdir -p $D
  cp $W/OUT/$L/patch.diff $W/OUT/$L/demo.rs $W/OUT/$L/notes.md $D/ 2>&1
  (cd /repo && git apply --check $D/patch.diff) && echo "$P$L installed; applies" || echo "$P$L DOES NOT APPLY"
done
git -C /repo worktree remove --force $W && echo "worktree $W removed"
