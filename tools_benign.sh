#!/bin/bash
# tools_benign.sh <PROP>: install a sub-agent's behaviour-preserving changes (OUT/{P,Q,R} of /tmp/wt-<PROP>b) into
# /verif/benign/<PROP><L>/ and run the quick checks whose anchors the patch touches against a scratch copy of the
# repository with the patch applied (tools_dev.sh): every check must stay quiet (exit 0).
set -u
P=$1; W=/tmp/wt-${P}b
for L in P Q R; do
  [ -f $W/OUT/$L/patch.diff ] || continue
  D=/verif/benign/$P$L; mkdir -p $D
  cp $W/OUT/$L/patch.diff $W/OUT/$L/notes.md $D/ 2>/dev/null
done
git -C /repo worktree remove --force $W 2>/dev/null
for L in P Q R; do
  D=/verif/benign/$P$L; [ -f $D/patch.diff ] || continue
  files=$(grep -E '^\+\+\+ b/' $D/patch.diff | sed 's#+++ b/##')
  checks="$P"
  for f in $files; do
    case $f in
      src/vdaf/prio3.rs|src/vdaf.rs) checks="$checks C01 C02 C05 C07 C13 C16 C17 C18 C12";;
      src/flp.rs|src/flp/*) checks="$checks C01 C02 C05 C14 C16";;
      src/idpf.rs) checks="$checks C03 C04 C06 C07 C08 C17";;
      src/vdaf/poplar1.rs) checks="$checks C03 C04 C07 C08 C13 C16 C17 C18 C20 C11";;
      src/vdaf/xof.rs|src/prng.rs|src/field/field255.rs|src/field.rs) checks="$checks C11 C03 C06 C01 C07 C13";;
      src/topology/ping_pong.rs) checks="$checks C12 C07 C08";;
      src/codec.rs) checks="$checks C07 C08 C12 C03";;
      src/vdaf/prio2*|src/polynomial.rs|src/ntt.rs) checks="$checks C19 C05 C07";;
      src/dp*|src/flp/types/dp.rs) checks="$checks C16";;
    esac
  done
  checks=$(echo $checks | tr " " "\n" | awk "!s[\$0]++" | head -4 | tr "\n" " ")
  : > $D/result.txt
  for c in $checks; do
    out=$(DEV_SLOT=ben DEV_SRC=${DEV_SRC:-/tmp/vdet} DEV_PATCH=$D/patch.diff /verif/tools_dev.sh $c quick 2>&1); code=$?
    echo "$c exit=$code $(echo "$out" | grep -m1 -E '^violation:|HARNESS-ERROR' | cut -c1-300)" >> $D/result.txt
  done
  echo "== $P$L: $(tr '\n' ';' < $D/result.txt)"
done
