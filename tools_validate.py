#!/usr/bin/env python3-vt
import json, sys, glob, jsonschema
m = json.load(open('/verif/MANIFEST.json'))
jsonschema.validate(m, json.load(open('/root/.vp/MANIFEST.schema.json')))
es = json.load(open('/root/.vp/EVIDENCE.schema.json'))
ids = [json.loads(l)['id'] for l in open('/verif/properties.jsonl')]
claimed = [c['property_id'] for c in m['checks']]
na = [c['property_id'] for c in m.get('not_applicable', [])]
assert sorted(claimed + na) == sorted(ids), (sorted(claimed + na), ids)
for c in m['checks']:
    p = c['evidence_file']
    try:
        jsonschema.validate(json.load(open(p)), es)
    except FileNotFoundError:
        print("missing evidence", p)
print("manifest ok; claimed", claimed)
