#!/usr/bin/env python3
"""Build seeded/<id>/meta.json and seeded/README.md from notes.md, confirm.txt and detection.json."""
import json, os, re, glob
root = '/verif/seeded'
rows = []
for d in sorted(glob.glob(root + '/C*')):
    name = os.path.basename(d)
    prop = name[:3]
    notes = open(d + '/notes.md').read() if os.path.exists(d + '/notes.md') else ''
    confirm = open(d + '/confirm.txt').read() if os.path.exists(d + '/confirm.txt') else ''
    det = json.load(open(d + '/detection.json')) if os.path.exists(d + '/detection.json') else {}
    detected = {k: v['first_violation'] for k, v in det.items() if v.get('exit') == 1}
    harness = [k for k, v in det.items() if v.get('exit') == 2]
    files = sorted(set(re.findall(r'^\+\+\+ b/(\S+)', open(d + '/patch.diff').read(), re.M)))
    meta = {
        'property': prop,
        'source': 'independent sub-agent given only the property text and a scratch worktree of /repo',
        'files_changed': files,
        'what_it_needs_to_manifest': notes.strip()[:1500],
        'confirmed': {
            'demo_passes_on_unchanged_source': 'demo_unchanged=pass' in confirm,
            'patch_applies': 'apply=ok' in confirm,
            'demo_fails_with_change': 'demo_changed=fail(expected)' in confirm,
            'builds_with_hooks_cfg': 'build_hooks=ok' in confirm,
            'pinned_suite_passes_with_change': 'suite=pass' in confirm,
            'how': 'tools_confirm.sh in a scratch worktree under /tmp (removed afterwards)',
        },
        'ran': 'tools_seeded.sh: git -C /repo apply patch.diff; ./check <ID> quick for ' + ' '.join(det.keys()) + '; git -C /repo checkout -- .',
        'detected_by': detected,
        'harness_error_in': harness,
    }
    json.dump(meta, open(d + '/meta.json', 'w'), indent=1)
    rows.append((name, prop, ', '.join(files), bool(detected), prop in detected, sorted(detected.keys()), harness))
with open(root + '/README.md', 'w') as f:
    f.write('# Seeded property-breaking changes\n\nEach directory holds `patch.diff` (never committed to /repo), `demo.rs` (an integration test that passes on the unchanged source and fails with the patch), `notes.md` (the author\'s description), `confirm.txt` (my confirmation run), `detection.json` (exit code and first violation line of every quick check with the patch applied) and `meta.json`.\n\n')
    f.write('| change | files | caught by its own property\'s check | caught by (quick tier) | harness error (exit 2) in |\n|---|---|---|---|---|\n')
    for name, prop, files, any_det, own, dets, harness in rows:
        f.write(f"| {name} | {files} | {'yes' if own else 'NO'} | {', '.join(dets) if dets else '—'} | {', '.join(harness) if harness else '—'} |\n")
    n = len(rows); own = sum(1 for r in rows if r[4]); anyd = sum(1 for r in rows if r[3])
    f.write(f"\n{n} changes; {own} caught by the check of the property they target, {anyd} caught by at least one check.\n")
print(open(root + '/README.md').read())
