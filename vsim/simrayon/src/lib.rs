//! simrayon — a stub scheduler for rayon's `par_chunks().fold().map().reduce()` call chain.
//!
//! Mirrors rayon::iter::plumbing::bridge_producer_consumer: a `LengthSplitter` seeded with the
//! (simulated) thread count, halving on each split, reset to max(T, splits/2) when the job was
//! "stolen", always splitting at len/2 (or, in widened mode, anywhere). One fold identity and one
//! reduce identity per leaf; leaves folded left to right; results combined in tree order.
//! The tape decides T, every stolen bit, (widened) split points, and the execution order of ready
//! tasks. Tasks run one at a time on the calling thread, so a run is a pure function of the tape.

use std::cell::RefCell;

pub mod prelude {
    pub use crate::{IndexedParallelIterator, IntoParallelIterator, IntoParallelRefIterator, ParallelIterator, ParallelSlice};
}
pub mod iter {
    pub use crate::{IndexedParallelIterator, IntoParallelIterator, IntoParallelRefIterator, ParallelIterator};
}
pub mod slice {
    pub use crate::ParallelSlice;
}

pub mod sim {
    use std::cell::RefCell;

    #[derive(Clone, Debug, Default)]
    pub struct Config {
        /// simulated number of worker threads (initial split budget)
        pub threads: usize,
        /// decisions consumed in order; exhausted tape yields 0
        pub tape: Vec<u32>,
        /// arbitrary split points instead of len/2
        pub widened: bool,
    }

    #[derive(Clone, Debug, PartialEq, Eq, Hash)]
    pub enum Task {
        Leaf { id: u32, lo: usize, hi: usize },
        Reduce { id: u32, left: u32, right: u32 },
    }

    #[derive(Default)]
    pub(crate) struct State {
        pub cfg: Config,
        pub cursor: usize,
        pub trace: Vec<Task>,
        pub calls: u64,
        pub installed: bool,
    }

    thread_local! {
        pub(crate) static STATE: RefCell<State> = RefCell::new(State::default());
    }

    /// Install a scheduling tape for subsequent parallel calls on this OS thread.
    pub fn install(cfg: Config) {
        STATE.with(|s| {
            let mut s = s.borrow_mut();
            s.cfg = cfg;
            s.cursor = 0;
            s.trace.clear();
            s.calls = 0;
            s.installed = true;
        });
    }

    /// Remove the tape; returns (trace of executed tasks, number of parallel calls, tape entries used).
    pub fn uninstall() -> (Vec<Task>, u64, usize) {
        STATE.with(|s| {
            let mut s = s.borrow_mut();
            s.installed = false;
            let t = std::mem::take(&mut s.trace);
            (t, s.calls, s.cursor)
        })
    }

    pub(crate) fn draw() -> u32 {
        STATE.with(|s| {
            let mut s = s.borrow_mut();
            let v = s.cfg.tape.get(s.cursor).copied().unwrap_or(0);
            s.cursor += 1;
            v
        })
    }
}

pub fn current_num_threads() -> usize {
    sim::STATE.with(|s| {
        let s = s.borrow();
        if s.installed { s.cfg.threads.max(1) } else { 1 }
    })
}

/// Items of a producer restricted to a sub-range of its base index space.
pub trait ParallelIterator: Sized {
    type Item;
    #[doc(hidden)]
    fn base_len(&self) -> usize;
    #[doc(hidden)]
    fn leaf(&self, lo: usize, hi: usize) -> Vec<Self::Item>;

    fn fold<T, ID, F>(self, identity: ID, fold_op: F) -> Fold<Self, ID, F>
    where
        F: Fn(T, Self::Item) -> T + Sync + Send,
        ID: Fn() -> T + Sync + Send,
        T: Send,
    {
        Fold { base: self, identity, fold_op }
    }

    fn map<F, R>(self, map_op: F) -> Map<Self, F>
    where
        F: Fn(Self::Item) -> R + Sync + Send,
        R: Send,
    {
        Map { base: self, map_op }
    }

    fn reduce<OP, ID>(self, identity: ID, op: OP) -> Self::Item
    where
        OP: Fn(Self::Item, Self::Item) -> Self::Item + Sync + Send,
        ID: Fn() -> Self::Item + Sync + Send,
    {
        drive(&self, &identity, &op)
    }

    /// like rayon's `try_fold`: one fallible accumulator per leaf; a failure ends that leaf's fold
    fn try_fold<T, R, ID, F>(self, identity: ID, fold_op: F) -> TryFold<Self, R, ID, F>
    where
        F: Fn(T, Self::Item) -> R + Sync + Send,
        ID: Fn() -> T + Sync + Send,
        R: Try<Output = T> + Send,
    {
        TryFold { base: self, identity, fold_op, _r: std::marker::PhantomData }
    }

    /// like rayon's `try_reduce`: combine the successes with `op` in tree order; the first failure met in the
    /// (tape-chosen) execution order is the result
    fn try_reduce<T, OP, ID>(self, identity: ID, op: OP) -> Self::Item
    where
        OP: Fn(T, T) -> Self::Item + Sync + Send,
        ID: Fn() -> T + Sync + Send,
        Self::Item: Try<Output = T>,
    {
        let failed: RefCell<Option<Self::Item>> = RefCell::new(None);
        let keep = |r: Self::Item| -> Option<T> {
            match r.branch() {
                Ok(t) => Some(t),
                Err(e) => {
                    let mut f = failed.borrow_mut();
                    if f.is_none() {
                        *f = Some(e);
                    }
                    None
                }
            }
        };
        let lifted = LiftTry { base: self, keep: &keep };
        let out = drive(&lifted, &|| Some(identity()), &|a: Option<T>, b: Option<T>| match (a, b) {
            (Some(a), Some(b)) => keep(op(a, b)),
            _ => None,
        });
        let first_failure = failed.borrow_mut().take();
        match (first_failure, out) {
            (Some(e), _) => e,
            (None, Some(t)) => <Self::Item as Try>::from_output(t),
            (None, None) => unreachable!("simrayon: a failed try_reduce without a recorded failure"),
        }
    }

    fn enumerate(self) -> Enumerate<Self> {
        Enumerate { base: self }
    }
    fn with_min_len(self, _min: usize) -> Self {
        self
    }
    fn with_max_len(self, _max: usize) -> Self {
        self
    }
    fn count(self) -> usize {
        let leaves = plan_tree(self.base_len());
        leaves.leaf_order().into_iter().map(|(lo, hi)| self.leaf(lo, hi).len()).sum()
    }
    /// order-preserving collection (leaves run in the tape-chosen order, results are put back in index order)
    fn collect<C>(self) -> C
    where
        C: std::iter::FromIterator<Self::Item>,
    {
        let leaves = plan_tree(self.base_len());
        let mut parts: Vec<(usize, Vec<Self::Item>)> = Vec::new();
        for (lo, hi) in leaves.leaf_order() {
            parts.push((lo, self.leaf(lo, hi)));
        }
        parts.sort_by_key(|p| p.0);
        parts.into_iter().flat_map(|p| p.1).collect()
    }

    fn for_each<OP>(self, op: OP)
    where
        OP: Fn(Self::Item) + Sync + Send,
    {
        let leaves = plan_tree(self.base_len());
        for (lo, hi) in leaves.leaf_order() {
            for item in self.leaf(lo, hi) {
                op(item);
            }
        }
    }

    fn sum<S>(self) -> S
    where
        S: Send + std::iter::Sum<Self::Item> + std::iter::Sum<S>,
    {
        let leaves = plan_tree(self.base_len());
        let mut parts: Vec<(usize, S)> = Vec::new();
        for (lo, hi) in leaves.leaf_order() {
            parts.push((lo, self.leaf(lo, hi).into_iter().sum()));
        }
        parts.sort_by_key(|p| p.0);
        parts.into_iter().map(|p| p.1).sum()
    }
}

/// The part of rayon's private `Try` that `try_fold` / `try_reduce` need (Option and Result).
pub trait Try: Sized {
    type Output;
    fn from_output(o: Self::Output) -> Self;
    /// Ok(success value) or Err(self, still holding the failure)
    fn branch(self) -> Result<Self::Output, Self>;
}
impl<T> Try for Option<T> {
    type Output = T;
    fn from_output(o: T) -> Self {
        Some(o)
    }
    fn branch(self) -> Result<T, Self> {
        match self {
            Some(t) => Ok(t),
            None => Err(None),
        }
    }
}
impl<T, E> Try for Result<T, E> {
    type Output = T;
    fn from_output(o: T) -> Self {
        Ok(o)
    }
    fn branch(self) -> Result<T, Self> {
        match self {
            Ok(t) => Ok(t),
            Err(e) => Err(Err(e)),
        }
    }
}

pub struct TryFold<B, R, ID, F> {
    base: B,
    identity: ID,
    fold_op: F,
    _r: std::marker::PhantomData<fn() -> R>,
}
impl<B, T, R, ID, F> ParallelIterator for TryFold<B, R, ID, F>
where
    B: ParallelIterator,
    F: Fn(T, B::Item) -> R + Sync + Send,
    ID: Fn() -> T + Sync + Send,
    R: Try<Output = T> + Send,
{
    type Item = R;
    fn base_len(&self) -> usize {
        self.base.base_len()
    }
    fn leaf(&self, lo: usize, hi: usize) -> Vec<R> {
        let mut acc = (self.identity)();
        for item in self.base.leaf(lo, hi) {
            match (self.fold_op)(acc, item).branch() {
                Ok(t) => acc = t,
                Err(e) => return vec![e],
            }
        }
        vec![R::from_output(acc)]
    }
}

struct LiftTry<'k, B: ParallelIterator, T> {
    base: B,
    keep: &'k dyn Fn(B::Item) -> Option<T>,
}
impl<'k, B: ParallelIterator, T> ParallelIterator for LiftTry<'k, B, T> {
    type Item = Option<T>;
    fn base_len(&self) -> usize {
        self.base.base_len()
    }
    fn leaf(&self, lo: usize, hi: usize) -> Vec<Option<T>> {
        self.base.leaf(lo, hi).into_iter().map(|r| (self.keep)(r)).collect()
    }
}

pub struct Enumerate<B> {
    base: B,
}
impl<B: ParallelIterator> ParallelIterator for Enumerate<B> {
    type Item = (usize, B::Item);
    fn base_len(&self) -> usize {
        self.base.base_len()
    }
    fn leaf(&self, lo: usize, hi: usize) -> Vec<(usize, B::Item)> {
        // valid for the indexed producers of this stub (one item per base index)
        self.base.leaf(lo, hi).into_iter().enumerate().map(|(i, x)| (lo + i, x)).collect()
    }
}

/// marker so that `use rayon::prelude::*` keeps compiling; every producer of the stub is indexed
pub trait IndexedParallelIterator: ParallelIterator {}
impl<P: ParallelIterator> IndexedParallelIterator for P {}

pub trait IntoParallelIterator {
    type Iter: ParallelIterator<Item = Self::Item>;
    type Item;
    fn into_par_iter(self) -> Self::Iter;
}
pub struct RangeIter {
    lo: usize,
    hi: usize,
}
impl ParallelIterator for RangeIter {
    type Item = usize;
    fn base_len(&self) -> usize {
        self.hi.saturating_sub(self.lo)
    }
    fn leaf(&self, lo: usize, hi: usize) -> Vec<usize> {
        (self.lo + lo..self.lo + hi).collect()
    }
}
impl IntoParallelIterator for std::ops::Range<usize> {
    type Iter = RangeIter;
    type Item = usize;
    fn into_par_iter(self) -> RangeIter {
        RangeIter { lo: self.start, hi: self.end }
    }
}
pub struct VecIter<T> {
    items: RefCell<Vec<Option<T>>>,
}
impl<T: Send> ParallelIterator for VecIter<T> {
    type Item = T;
    fn base_len(&self) -> usize {
        self.items.borrow().len()
    }
    fn leaf(&self, lo: usize, hi: usize) -> Vec<T> {
        let mut v = self.items.borrow_mut();
        (lo..hi).map(|i| v[i].take().expect("simrayon: item consumed twice")).collect()
    }
}
impl<T: Send> IntoParallelIterator for Vec<T> {
    type Iter = VecIter<T>;
    type Item = T;
    fn into_par_iter(self) -> VecIter<T> {
        VecIter { items: RefCell::new(self.into_iter().map(Some).collect()) }
    }
}
pub struct SliceIter<'a, T> {
    slice: &'a [T],
}
impl<'a, T: Sync + 'a> ParallelIterator for SliceIter<'a, T> {
    type Item = &'a T;
    fn base_len(&self) -> usize {
        self.slice.len()
    }
    fn leaf(&self, lo: usize, hi: usize) -> Vec<&'a T> {
        self.slice[lo..hi].iter().collect()
    }
}
pub trait IntoParallelRefIterator<'a> {
    type Iter: ParallelIterator<Item = Self::Item>;
    type Item: 'a;
    fn par_iter(&'a self) -> Self::Iter;
}
impl<'a, T: Sync + 'a> IntoParallelRefIterator<'a> for [T] {
    type Iter = SliceIter<'a, T>;
    type Item = &'a T;
    fn par_iter(&'a self) -> SliceIter<'a, T> {
        SliceIter { slice: self }
    }
}
impl<'a, T: Sync + 'a> IntoParallelRefIterator<'a> for Vec<T> {
    type Iter = SliceIter<'a, T>;
    type Item = &'a T;
    fn par_iter(&'a self) -> SliceIter<'a, T> {
        SliceIter { slice: self }
    }
}

pub struct Chunks<'a, T> {
    slice: &'a [T],
    size: usize,
}
pub struct ChunksExact<'a, T> {
    slice: &'a [T],
    size: usize,
}
impl<'a, T: Sync + 'a> ChunksExact<'a, T> {
    pub fn remainder(&self) -> &'a [T] {
        &self.slice[self.slice.len() - self.slice.len() % self.size..]
    }
}
impl<'a, T: Sync + 'a> ParallelIterator for ChunksExact<'a, T> {
    type Item = &'a [T];
    fn base_len(&self) -> usize {
        self.slice.len() / self.size
    }
    fn leaf(&self, lo: usize, hi: usize) -> Vec<&'a [T]> {
        (lo..hi).map(|i| &self.slice[i * self.size..(i + 1) * self.size]).collect()
    }
}

pub trait ParallelSlice<T: Sync> {
    fn as_parallel_slice(&self) -> &[T];
    fn par_chunks(&self, chunk_size: usize) -> Chunks<'_, T> {
        assert!(chunk_size != 0, "chunk_size must not be zero");
        Chunks { slice: self.as_parallel_slice(), size: chunk_size }
    }
    fn par_chunks_exact(&self, chunk_size: usize) -> ChunksExact<'_, T> {
        assert!(chunk_size != 0, "chunk_size must not be zero");
        ChunksExact { slice: self.as_parallel_slice(), size: chunk_size }
    }
}

impl<T: Sync> ParallelSlice<T> for [T] {
    fn as_parallel_slice(&self) -> &[T] {
        self
    }
}

impl<'a, T: Sync + 'a> ParallelIterator for Chunks<'a, T> {
    type Item = &'a [T];
    fn base_len(&self) -> usize {
        self.slice.len().div_ceil(self.size)
    }
    fn leaf(&self, lo: usize, hi: usize) -> Vec<&'a [T]> {
        (lo..hi)
            .map(|i| {
                let s = i * self.size;
                let e = (s + self.size).min(self.slice.len());
                &self.slice[s..e]
            })
            .collect()
    }
}

pub struct Fold<B, ID, F> {
    base: B,
    identity: ID,
    fold_op: F,
}

impl<B, T, ID, F> ParallelIterator for Fold<B, ID, F>
where
    B: ParallelIterator,
    F: Fn(T, B::Item) -> T + Sync + Send,
    ID: Fn() -> T + Sync + Send,
    T: Send,
{
    type Item = T;
    fn base_len(&self) -> usize {
        self.base.base_len()
    }
    fn leaf(&self, lo: usize, hi: usize) -> Vec<T> {
        let mut acc = (self.identity)();
        for item in self.base.leaf(lo, hi) {
            acc = (self.fold_op)(acc, item);
        }
        vec![acc]
    }
}

pub struct Map<B, F> {
    base: B,
    map_op: F,
}

impl<B, R, F> ParallelIterator for Map<B, F>
where
    B: ParallelIterator,
    F: Fn(B::Item) -> R + Sync + Send,
    R: Send,
{
    type Item = R;
    fn base_len(&self) -> usize {
        self.base.base_len()
    }
    fn leaf(&self, lo: usize, hi: usize) -> Vec<R> {
        self.base.leaf(lo, hi).into_iter().map(&self.map_op).collect()
    }
}

// ---- split tree -------------------------------------------------------------------------

#[derive(Clone, Debug)]
enum Node {
    Leaf { lo: usize, hi: usize },
    Inner { left: usize, right: usize },
}

struct Tree {
    nodes: Vec<Node>,
    root: usize,
}

impl Tree {
    fn leaf_order(&self) -> Vec<(usize, usize)> {
        let mut leaves: Vec<(usize, usize)> = self
            .nodes
            .iter()
            .filter_map(|n| match n {
                Node::Leaf { lo, hi } => Some((*lo, *hi)),
                _ => None,
            })
            .collect();
        // random execution order from the tape (Fisher-Yates)
        for i in (1..leaves.len()).rev() {
            let j = (sim::draw() as usize) % (i + 1);
            leaves.swap(i, j);
        }
        leaves
    }
}

fn plan_tree(len: usize) -> Tree {
    let (threads, widened, installed) = sim::STATE.with(|s| {
        let mut s = s.borrow_mut();
        s.calls += 1;
        (s.cfg.threads.max(1), s.cfg.widened, s.installed)
    });
    let mut nodes = Vec::new();
    let root = if installed {
        build(&mut nodes, 0, len, false, threads, threads, widened)
    } else {
        nodes.push(Node::Leaf { lo: 0, hi: len });
        0
    };
    Tree { nodes, root }
}

// mirrors rayon's LengthSplitter { inner: Splitter { splits }, min: 1 }
fn build(
    nodes: &mut Vec<Node>,
    lo: usize,
    hi: usize,
    migrated: bool,
    mut splits: usize,
    threads: usize,
    widened: bool,
) -> usize {
    let len = hi - lo;
    let can_split = len / 2 >= 1 && {
        if migrated {
            splits = std::cmp::max(threads, splits / 2);
            true
        } else if splits > 0 {
            splits /= 2;
            true
        } else {
            false
        }
    };
    if can_split {
        let mid = if widened { 1 + (sim::draw() as usize) % (len - 1) } else { len / 2 };
        let l_stolen = sim::draw() & 1 == 1;
        let r_stolen = sim::draw() & 1 == 1;
        let l = build(nodes, lo, lo + mid, l_stolen, splits, threads, widened);
        let r = build(nodes, lo + mid, hi, r_stolen, splits, threads, widened);
        nodes.push(Node::Inner { left: l, right: r });
    } else {
        nodes.push(Node::Leaf { lo, hi });
    }
    nodes.len() - 1
}

fn drive<P, ID, OP>(p: &P, identity: &ID, op: &OP) -> P::Item
where
    P: ParallelIterator,
    OP: Fn(P::Item, P::Item) -> P::Item,
    ID: Fn() -> P::Item,
{
    let tree = plan_tree(p.base_len());
    let n = tree.nodes.len();
    let mut results: Vec<Option<P::Item>> = (0..n).map(|_| None).collect();
    let mut done = vec![false; n];
    let mut remaining = n;
    while remaining > 0 {
        // ready tasks: leaves not done; inner nodes whose children are both done
        let ready: Vec<usize> = (0..n)
            .filter(|&i| {
                !done[i]
                    && match &tree.nodes[i] {
                        Node::Leaf { .. } => true,
                        Node::Inner { left, right } => done[*left] && done[*right],
                    }
            })
            .collect();
        let pick = ready[(sim::draw() as usize) % ready.len()];
        match tree.nodes[pick].clone() {
            Node::Leaf { lo, hi } => {
                let mut acc = identity();
                for item in p.leaf(lo, hi) {
                    acc = op(acc, item);
                }
                results[pick] = Some(acc);
                record(sim::Task::Leaf { id: pick as u32, lo, hi });
            }
            Node::Inner { left, right } => {
                let l = results[left].take().unwrap();
                let r = results[right].take().unwrap();
                results[pick] = Some(op(l, r));
                record(sim::Task::Reduce { id: pick as u32, left: left as u32, right: right as u32 });
            }
        }
        done[pick] = true;
        remaining -= 1;
    }
    results[tree.root].take().unwrap()
}

fn record(t: sim::Task) {
    sim::STATE.with(|s| {
        let mut s = s.borrow_mut();
        if s.installed && s.trace.len() < 100_000 {
            s.trace.push(t);
        }
    });
}

#[allow(dead_code)]
fn _unused(_: &RefCell<()>) {}
