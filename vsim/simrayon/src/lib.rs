//! simrayon — a stub scheduler for rayon's `par_chunks().fold().map().reduce()` call chain.
//!
//! Mirrors rayon::iter::plumbing::bridge_producer_consumer: a `LengthSplitter` seeded with the
//! (simulated) thread count, halving on each split, reset to max(T, splits/2) when the job was
//! "stolen", always splitting at len/2 (or, in widened mode, anywhere). One fold identity and one
//! reduce identity per leaf; leaves folded left to right; results combined in tree order.
//! The tape decides T, every stolen bit, (widened) split points, and the execution order of ready
//! tasks. Tasks run one at a time on the calling thread, so a run is a pure function of the tape.

use std::cell::RefCell;

pub mod prelude {
    pub use crate::{ParallelIterator, ParallelSlice};
}

pub mod sim {
    use std::cell::RefCell;

    #[derive(Clone, Debug, Default)]
    pub struct Config {
        /// simulated number of worker threads (initial split budget)
        pub threads: usize,
        /// decisions consumed in order; exhausted tape yields 0
        pub tape: Vec<u32>,
        /// arbitrary split points instead of len/2
        pub widened: bool,
    }

    #[derive(Clone, Debug, PartialEq, Eq, Hash)]
    pub enum Task {
        Leaf { id: u32, lo: usize, hi: usize },
        Reduce { id: u32, left: u32, right: u32 },
    }

    #[derive(Default)]
    pub(crate) struct State {
        pub cfg: Config,
        pub cursor: usize,
        pub trace: Vec<Task>,
        pub calls: u64,
        pub installed: bool,
    }

    thread_local! {
        pub(crate) static STATE: RefCell<State> = RefCell::new(State::default());
    }

    /// Install a scheduling tape for subsequent parallel calls on this OS thread.
    pub fn install(cfg: Config) {
        STATE.with(|s| {
            let mut s = s.borrow_mut();
            s.cfg = cfg;
            s.cursor = 0;
            s.trace.clear();
            s.calls = 0;
            s.installed = true;
        });
    }

    /// Remove the tape; returns (trace of executed tasks, number of parallel calls, tape entries used).
    pub fn uninstall() -> (Vec<Task>, u64, usize) {
        STATE.with(|s| {
            let mut s = s.borrow_mut();
            s.installed = false;
            let t = std::mem::take(&mut s.trace);
            (t, s.calls, s.cursor)
        })
    }

    pub(crate) fn draw() -> u32 {
        STATE.with(|s| {
            let mut s = s.borrow_mut();
            let v = s.cfg.tape.get(s.cursor).copied().unwrap_or(0);
            s.cursor += 1;
            v
        })
    }
}

pub fn current_num_threads() -> usize {
    sim::STATE.with(|s| {
        let s = s.borrow();
        if s.installed { s.cfg.threads.max(1) } else { 1 }
    })
}

/// Items of a producer restricted to a sub-range of its base index space.
pub trait ParallelIterator: Sized {
    type Item;
    #[doc(hidden)]
    fn base_len(&self) -> usize;
    #[doc(hidden)]
    fn leaf(&self, lo: usize, hi: usize) -> Vec<Self::Item>;

    fn fold<T, ID, F>(self, identity: ID, fold_op: F) -> Fold<Self, ID, F>
    where
        F: Fn(T, Self::Item) -> T + Sync + Send,
        ID: Fn() -> T + Sync + Send,
        T: Send,
    {
        Fold { base: self, identity, fold_op }
    }

    fn map<F, R>(self, map_op: F) -> Map<Self, F>
    where
        F: Fn(Self::Item) -> R + Sync + Send,
        R: Send,
    {
        Map { base: self, map_op }
    }

    fn reduce<OP, ID>(self, identity: ID, op: OP) -> Self::Item
    where
        OP: Fn(Self::Item, Self::Item) -> Self::Item + Sync + Send,
        ID: Fn() -> Self::Item + Sync + Send,
    {
        drive(&self, &identity, &op)
    }

    fn for_each<OP>(self, op: OP)
    where
        OP: Fn(Self::Item) + Sync + Send,
    {
        let leaves = plan_tree(self.base_len());
        for (lo, hi) in leaves.leaf_order() {
            for item in self.leaf(lo, hi) {
                op(item);
            }
        }
    }

    fn sum<S>(self) -> S
    where
        S: Send + std::iter::Sum<Self::Item> + std::iter::Sum<S>,
    {
        let leaves = plan_tree(self.base_len());
        let mut parts: Vec<(usize, S)> = Vec::new();
        for (lo, hi) in leaves.leaf_order() {
            parts.push((lo, self.leaf(lo, hi).into_iter().sum()));
        }
        parts.sort_by_key(|p| p.0);
        parts.into_iter().map(|p| p.1).sum()
    }
}

pub struct Chunks<'a, T> {
    slice: &'a [T],
    size: usize,
}

pub trait ParallelSlice<T: Sync> {
    fn as_parallel_slice(&self) -> &[T];
    fn par_chunks(&self, chunk_size: usize) -> Chunks<'_, T> {
        assert!(chunk_size != 0, "chunk_size must not be zero");
        Chunks { slice: self.as_parallel_slice(), size: chunk_size }
    }
}

impl<T: Sync> ParallelSlice<T> for [T] {
    fn as_parallel_slice(&self) -> &[T] {
        self
    }
}

impl<'a, T: Sync + 'a> ParallelIterator for Chunks<'a, T> {
    type Item = &'a [T];
    fn base_len(&self) -> usize {
        self.slice.len().div_ceil(self.size)
    }
    fn leaf(&self, lo: usize, hi: usize) -> Vec<&'a [T]> {
        (lo..hi)
            .map(|i| {
                let s = i * self.size;
                let e = (s + self.size).min(self.slice.len());
                &self.slice[s..e]
            })
            .collect()
    }
}

pub struct Fold<B, ID, F> {
    base: B,
    identity: ID,
    fold_op: F,
}

impl<B, T, ID, F> ParallelIterator for Fold<B, ID, F>
where
    B: ParallelIterator,
    F: Fn(T, B::Item) -> T + Sync + Send,
    ID: Fn() -> T + Sync + Send,
    T: Send,
{
    type Item = T;
    fn base_len(&self) -> usize {
        self.base.base_len()
    }
    fn leaf(&self, lo: usize, hi: usize) -> Vec<T> {
        let mut acc = (self.identity)();
        for item in self.base.leaf(lo, hi) {
            acc = (self.fold_op)(acc, item);
        }
        vec![acc]
    }
}

pub struct Map<B, F> {
    base: B,
    map_op: F,
}

impl<B, R, F> ParallelIterator for Map<B, F>
where
    B: ParallelIterator,
    F: Fn(B::Item) -> R + Sync + Send,
    R: Send,
{
    type Item = R;
    fn base_len(&self) -> usize {
        self.base.base_len()
    }
    fn leaf(&self, lo: usize, hi: usize) -> Vec<R> {
        self.base.leaf(lo, hi).into_iter().map(&self.map_op).collect()
    }
}

// ---- split tree -------------------------------------------------------------------------

#[derive(Clone, Debug)]
enum Node {
    Leaf { lo: usize, hi: usize },
    Inner { left: usize, right: usize },
}

struct Tree {
    nodes: Vec<Node>,
    root: usize,
}

impl Tree {
    fn leaf_order(&self) -> Vec<(usize, usize)> {
        let mut leaves: Vec<(usize, usize)> = self
            .nodes
            .iter()
            .filter_map(|n| match n {
                Node::Leaf { lo, hi } => Some((*lo, *hi)),
                _ => None,
            })
            .collect();
        // random execution order from the tape (Fisher-Yates)
        for i in (1..leaves.len()).rev() {
            let j = (sim::draw() as usize) % (i + 1);
            leaves.swap(i, j);
        }
        leaves
    }
}

fn plan_tree(len: usize) -> Tree {
    let (threads, widened, installed) = sim::STATE.with(|s| {
        let mut s = s.borrow_mut();
        s.calls += 1;
        (s.cfg.threads.max(1), s.cfg.widened, s.installed)
    });
    let mut nodes = Vec::new();
    let root = if installed {
        build(&mut nodes, 0, len, false, threads, threads, widened)
    } else {
        nodes.push(Node::Leaf { lo: 0, hi: len });
        0
    };
    Tree { nodes, root }
}

// mirrors rayon's LengthSplitter { inner: Splitter { splits }, min: 1 }
fn build(
    nodes: &mut Vec<Node>,
    lo: usize,
    hi: usize,
    migrated: bool,
    mut splits: usize,
    threads: usize,
    widened: bool,
) -> usize {
    let len = hi - lo;
    let can_split = len / 2 >= 1 && {
        if migrated {
            splits = std::cmp::max(threads, splits / 2);
            true
        } else if splits > 0 {
            splits /= 2;
            true
        } else {
            false
        }
    };
    if can_split {
        let mid = if widened { 1 + (sim::draw() as usize) % (len - 1) } else { len / 2 };
        let l_stolen = sim::draw() & 1 == 1;
        let r_stolen = sim::draw() & 1 == 1;
        let l = build(nodes, lo, lo + mid, l_stolen, splits, threads, widened);
        let r = build(nodes, lo + mid, hi, r_stolen, splits, threads, widened);
        nodes.push(Node::Inner { left: l, right: r });
    } else {
        nodes.push(Node::Leaf { lo, hi });
    }
    nodes.len() - 1
}

fn drive<P, ID, OP>(p: &P, identity: &ID, op: &OP) -> P::Item
where
    P: ParallelIterator,
    OP: Fn(P::Item, P::Item) -> P::Item,
    ID: Fn() -> P::Item,
{
    let tree = plan_tree(p.base_len());
    let n = tree.nodes.len();
    let mut results: Vec<Option<P::Item>> = (0..n).map(|_| None).collect();
    let mut done = vec![false; n];
    let mut remaining = n;
    while remaining > 0 {
        // ready tasks: leaves not done; inner nodes whose children are both done
        let ready: Vec<usize> = (0..n)
            .filter(|&i| {
                !done[i]
                    && match &tree.nodes[i] {
                        Node::Leaf { .. } => true,
                        Node::Inner { left, right } => done[*left] && done[*right],
                    }
            })
            .collect();
        let pick = ready[(sim::draw() as usize) % ready.len()];
        match tree.nodes[pick].clone() {
            Node::Leaf { lo, hi } => {
                let mut acc = identity();
                for item in p.leaf(lo, hi) {
                    acc = op(acc, item);
                }
                results[pick] = Some(acc);
                record(sim::Task::Leaf { id: pick as u32, lo, hi });
            }
            Node::Inner { left, right } => {
                let l = results[left].take().unwrap();
                let r = results[right].take().unwrap();
                results[pick] = Some(op(l, r));
                record(sim::Task::Reduce { id: pick as u32, left: left as u32, right: right as u32 });
            }
        }
        done[pick] = true;
        remaining -= 1;
    }
    results[tree.root].take().unwrap()
}

fn record(t: sim::Task) {
    sim::STATE.with(|s| {
        let mut s = s.borrow_mut();
        if s.installed && s.trace.len() < 100_000 {
            s.trace.push(t);
        }
    });
}

#[allow(dead_code)]
fn _unused(_: &RefCell<()>) {}
