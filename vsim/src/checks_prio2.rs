//! C19: Prio2 in world A (honest, Byzantine client, tampering; RNG tape hook), plus the
//! "query point is never an interpolation node" search.

use crate::checks_a::{base_plan, exec_plan_a, gen_agg_plan, shrink_plan_a};
use crate::core::*;
use crate::inst_prio2::gen_prio2_inst;
use crate::model::P32;
use crate::rng::Rng;
use crate::util::{Counters, Hx, N};
use crate::world_a::*;
use hmac::{Hmac, KeyInit, Mac};
use prio::codec::{Encode, ParameterizedDecode};
use prio::field::FieldPrio2;
use prio::vdaf::prio2::Prio2;
use prio::vdaf::xof::{IntoFieldVec, SeedStreamAes128};
use prio::vdaf::{Aggregator, Client, Share};
use serde::{Deserialize, Serialize};
use serde_json::{json, Value};
use sha2::Sha256;

pub struct CheckPrio2;

pub fn checks() -> Vec<Box<dyn Check>> {
    vec![Box::new(CheckPrio2)]
}

const ACCEPT: &[&str] = &["C19.", "panic"];

#[derive(Clone, Debug, Serialize, Deserialize, PartialEq)]
#[serde(tag = "w")]
pub enum PlanP {
    A { plan: PlanA },
    /// search nonces until the first query-point candidate is a 2n-th root of unity
    Q { len: u32, key: Hx, nonce_seed: u64, rand: Hx, max_trials: u64, #[serde(default)] exact_order: bool },
    /// refinement of the aggregators' verification step: an ARBITRARY leader share (data ‖ f(1) ‖ g(1) ‖ h(1) ‖ h at
    /// the odd 2n-th roots; elements as little-endian u32, reduced mod p at execution) and a query point; the verifier
    /// share must equal direct Lagrange evaluation of the three polynomials those values define, whatever the share
    R { len: u32, share: Vec<u32>, r: u32 },
}

fn modpow(mut b: u64, mut e: u64, p: u64) -> u64 {
    let mut r = 1u64;
    b %= p;
    if p < (1 << 32) {
        while e > 0 {
            if e & 1 == 1 {
                r = r * b % p;
            }
            b = b * b % p;
            e >>= 1;
        }
        return r;
    }
    while e > 0 {
        if e & 1 == 1 {
            r = (r as u128 * b as u128 % p as u128) as u64;
        }
        b = (b as u128 * b as u128 % p as u128) as u64;
        e >>= 1;
    }
    r
}

fn gen_mutation_p2(rng: &mut Rng) -> Mutation {
    match rng.below(6) {
        0 => Mutation::Flip { pos: rng.u32(), bit: rng.below(8) as u8 },
        1 => Mutation::Set { pos: rng.u32(), val: rng.below(256) as u8 },
        2 => Mutation::Trunc { keep: rng.u32() },
        3 => Mutation::Extend { extra: Hx(vec![0; 1 + rng.usize_below(4)]) },
        _ => Mutation::FieldAdd { region: rng.u32(), elem: rng.u32(), delta: N(match rng.below(3) { 0 => 1, 1 => P32 - 1, _ => 1 + rng.u128() % (P32 - 1) }) },
    }
}

fn gen_plan(seed: u64, tier: Tier) -> PlanP {
    let mut rng = Rng::new(seed);
    let rng = &mut rng;
    if rng.chance(1, if tier == Tier::Thorough { 2000 } else { 6000 }) {
        let k = 12 + rng.below(4) as u32;
        // lengths 2^k - 1, 2^k and 2^k + 1: the domain size (2 * next_power_of_two(len + 1)) changes at 2^k
        let len = ((1u32 << k) as i64 + *rng.pick(&[-1i64, -1, 0, 0, 1])) as u32;
        return PlanP::Q { len, key: Hx(rng.bytes(32)), nonce_seed: rng.u64(), rand: Hx(rng.bytes(64)), max_trials: 8_000_000, exact_order: rng.chance(1, 2) };
    }
    if rng.chance(1, 8) {
        let len: u32 = match rng.below(3) {
            0 => *rng.pick(&[1u32, 2, 3, 4, 5, 7, 8, 15, 16, 31, 32, 63]),
            1 => 1 + rng.below(20) as u32,
            _ => 1 + rng.below(130) as u32,
        };
        let n = (len as usize + 1).next_power_of_two();
        let plen = len as usize + 3 + n;
        let p = P32 as u32;
        let style = rng.below(4);
        let share: Vec<u32> = (0..plen)
            .map(|_| match style {
                0 => rng.u32() % p,
                1 => *rng.pick(&[0u32, 1, p - 1, 2]),
                2 => if rng.chance(1, 3) { rng.u32() % p } else { 0 },
                _ => rng.u32() % p,
            })
            .collect();
        return PlanP::R { len, share, r: if rng.chance(1, 6) { *rng.pick(&[0u32, 2, p - 1, 3]) } else { rng.u32() % p } };
    }
    let mode = rng.below(10);
    let small = mode >= 4;
    let inst = gen_prio2_inst(rng, small);
    let k = 1 + rng.usize_below(if inst.len > 300 { 2 } else { 6 });
    if mode < 4 {
        let mut p = base_plan(inst, "honest", rng, k);
        let refus = rng.chance(1, 3);
        p.agg = gen_agg_plan(rng, 2, k, refus);
        // noise
        for _ in 0..rng.below(3) {
            p.crashes.push(Crash { step: rng.below(6 * k as u64 + 2) as u32, node: rng.below(2) as u8, recompute: rng.chance(1, 2) });
        }
        if rng.chance(3, 4) {
            p.choices = (0..8 * k + 4).map(|_| rng.u32()).collect();
        }
        if rng.chance(1, 3) {
            p.faults.push(Fault { kind: EnvKind::Upload, rep: rng.below(k as u64) as u32, ap: 0, from: CLIENT, to: rng.below(2) as u8, round: 0, at_source: false, act: Act::Dup });
        }
        // the same process also shards / verifies for other tasks (other lengths, other contexts) in between
        if rng.chance(1, 3) {
            for _ in 0..1 + rng.below(3) {
                let f = crate::checks_a::gen_foreign(rng, &p, 6 * k as u32 + 2);
                p.foreign.push(f);
            }
        }
        PlanP::A { plan: p }
    } else if mode < 7 {
        // Byzantine client: the public `shard` accepts arbitrary u32 entries
        let mut p = base_plan(inst, "byz", rng, k);
        let victim = rng.usize_below(k);
        let len = p.inst.len as usize;
        let i = rng.usize_below(len);
        p.reports[victim].meas[i] = N(match rng.below(4) {
            0 => 2,
            1 => P32 - 1,
            2 => P32 - 2,
            _ => 2 + rng.u128() % (P32 - 3),
        });
        p.reports[victim].evil = true;
        if rng.chance(1, 2) {
            p.choices = (0..8 * k + 4).map(|_| rng.u32()).collect();
        }
        PlanP::A { plan: p }
    } else {
        let mut p = base_plan(inst, "tamper", rng, k);
        p.timeouts = true;
        let nf = if rng.chance(4, 5) { 1 } else { 2 };
        for _ in 0..nf {
            let rep = rng.below(k as u64) as u32;
            let j = rng.below(2) as u8;
            let f = match rng.below(8) {
                0..=3 => Fault { kind: EnvKind::Upload, rep, ap: 0, from: CLIENT, to: if rng.chance(3, 4) { 0 } else { 1 }, round: 0, at_source: false, act: Act::Mutate { part: 1, m: gen_mutation_p2(rng) } },
                4 | 5 => Fault { kind: EnvKind::VShare, rep, ap: 0, from: j, to: COMBINER, round: 0, at_source: false, act: Act::Mutate { part: 0, m: gen_mutation_p2(rng) } },
                6 => Fault { kind: EnvKind::VShare, rep, ap: 0, from: j, to: COMBINER, round: 0, at_source: false, act: if rng.chance(1, 2) { Act::Drop } else { Act::DupZero } },
                _ => Fault { kind: EnvKind::VMsg, rep, ap: 0, from: COMBINER, to: j, round: 0, at_source: false, act: Act::Mutate { part: 0, m: Mutation::Extend { extra: Hx(vec![rng.below(256) as u8]) } } },
            };
            p.faults.push(f);
        }
        if rng.chance(1, 3) {
            p.crashes.push(Crash { step: rng.below(8) as u32, node: rng.below(2) as u8, recompute: rng.chance(1, 2) });
        }
        PlanP::A { plan: p }
    }
}

fn exec_q(len: u32, key: &[u8], nonce_seed: u64, rand: &[u8], max_trials: u64, exact_order: bool, ctx: &mut Ctx) -> Result<(), String> {
    let vdaf = Prio2::new(len as usize).map_err(|e| e.to_string())?;
    let n = (len as usize + 1).next_power_of_two();
    let order = 2 * n as u64;
    let p = P32 as u64;
    let mut vk = [0u8; 32];
    vk.copy_from_slice(&key[..32]);
    ctx.sig.str("C19.Q").u64(len as u64);
    ctx.nontrivial = true;
    // search
    let mut found: Option<([u8; 16], Vec<u32>)> = None;
    let mut trials = 0u64;
    let mut st = nonce_seed;
    while trials < max_trials {
        trials += 1;
        let a = crate::rng::splitmix64(&mut st);
        let b = crate::rng::splitmix64(&mut st);
        let mut nonce = [0u8; 16];
        nonce[..8].copy_from_slice(&a.to_le_bytes());
        nonce[8..].copy_from_slice(&b.to_le_bytes());
        let mut mac = Hmac::<Sha256>::new_from_slice(&vk).map_err(|e| e.to_string())?;
        mac.update(&nonce);
        let tag: [u8; 32] = mac.finalize().into_bytes().into();
        let stream = SeedStreamAes128::new((&tag[..16]).try_into().unwrap(), (&tag[16..]).try_into().unwrap());
        let cands: Vec<FieldPrio2> = stream.into_field_vec(6);
        let ints: Vec<u32> = cands.iter().map(|c| u32::from(*c)).collect();
        // `exact_order`: the first candidate is a root of unity of order exactly 2n (an
        // interpolation node that no smaller domain contains)
        if modpow(ints[0] as u64, order, p) == 1 && (!exact_order || modpow(ints[0] as u64, order / 2, p) != 1) {
            found = Some((nonce, ints));
            break;
        }
    }
    ctx.events += trials;
    ctx.counters.add("c19.query_point_search_trials", trials);
    let Some((nonce, ints)) = found else {
        ctx.counters.inc("c19.query_point_search_exhausted");
        return Ok(());
    };
    ctx.probe("first_query_candidate_is_a_root_of_unity");
    let expected = ints.iter().copied().find(|c| modpow(*c as u64, order, p) != 1).ok_or("six roots in a row")?;
    // an honest report
    let meas: Vec<u32> = (0..len).map(|i| ((rand[i as usize % rand.len()] >> (i % 8)) & 1) as u32).collect();
    prio::verif_hooks::install_tape(rand.to_vec());
    let sh = guard("Prio2::shard", || vdaf.shard(b"", &meas, &nonce));
    prio::verif_hooks::remove_tape();
    let (_, shares) = match sh {
        Ok(Ok(x)) => x,
        Ok(Err(e)) => return Err(e.to_string()),
        Err(v) => {
            ctx.fail(v);
            return Ok(());
        }
    };
    for (agg, is_leader) in [(0usize, true), (1, false)] {
        let share: &Share<FieldPrio2, 32> = &shares[agg];
        let got = guard("Prio2::verify_init", || vdaf.verify_init(&vk, b"", agg, &(), &nonce, &(), share));
        let (_, got) = match got {
            Ok(Ok(x)) => x,
            Ok(Err(e)) => {
                ctx.fail(Violation::new("C19.query_point", "verify_init|err", format!("verify_init failed on an honest report whose first query candidate is a root of unity: {e}")));
                return Ok(());
            }
            Err(v) => {
                ctx.fail(v);
                return Ok(());
            }
        };
        let want = vdaf.verify_init_with_query_rand(FieldPrio2::from(expected), share, is_leader).map_err(|e| e.to_string())?.1;
        let gb = got.get_encoded().map_err(|e| e.to_string())?;
        let wb = want.get_encoded().map_err(|e| e.to_string())?;
        // evaluating at the node itself is refused or gives something else
        let at_root = vdaf.verify_init_with_query_rand(FieldPrio2::from(ints[0]), share, is_leader).ok().and_then(|x| x.1.get_encoded().ok());
        if gb != wb {
            ctx.fail(Violation::new(
                "C19.query_point",
                "query_point|not_first_non_root",
                format!("len={len}: verifier share of aggregator {agg} is not the one for the first non-root candidate {expected} (first candidate {} is a {}-th root of unity){}", ints[0], order, if Some(&gb) == at_root.as_ref() { "; it IS the one evaluated at the root" } else { "" }),
            ));
            return Ok(());
        }
    }
    let _ = <Share<FieldPrio2, 32> as ParameterizedDecode<(&Prio2, usize)>>::get_decoded_with_param;
    ctx.counters.inc("c19.query_point_checked");
    Ok(())
}

/// Value at `r` of the polynomial of degree < m that takes the values `v` at the m-th roots of unity w^0 .. w^(m-1):
/// sum_i v_i * w^i (r^m - 1) / (m (r - w^i)), on plain integers mod p. `r` must not be one of the nodes.
fn lagrange_at(v: &[u64], w: u64, r: u64, p: u64) -> u64 {
    let m = v.len() as u64;
    // p < 2^32: products of reduced values fit u64
    let mul = |a: u64, b: u64| (a % p) * (b % p) % p;
    let num = (modpow(r, m, p) + p - 1) % p;
    let minv = modpow(m % p, p - 2, p);
    let mut acc = 0u64;
    let mut wi = 1u64;
    for vi in v {
        if *vi != 0 {
            let d = (r + p - wi) % p;
            let t = mul(mul(*vi % p, wi), modpow(d, p - 2, p));
            acc = (acc + t) % p;
        }
        wi = mul(wi, w);
    }
    mul(mul(acc, num), minv)
}

fn exec_r(len: u32, share: &[u32], r: u32, ctx: &mut Ctx) -> Result<(), String> {
    use prio::field::NttFriendlyFieldElement;
    let p = P32 as u64;
    let vdaf = Prio2::new(len as usize).map_err(|e| e.to_string())?;
    let dim = len as usize;
    let n = (dim + 1).next_power_of_two();
    let plen = dim + 3 + n;
    ctx.sig.str("C19.R").u64(len as u64).u64(share.iter().filter(|x| **x != 0).count().min(3) as u64);
    ctx.nontrivial = true;
    ctx.counters.inc("c19.verifier_refinement_runs");
    if share.len() != plen {
        return Err(format!("plan share has {} elements, the instance wants {plen}", share.len()));
    }
    let sh: Vec<u64> = share.iter().map(|x| *x as u64 % p).collect();
    // a query point that is not a 2n-th root of unity (the protocol never evaluates at a node)
    let mut r = r as u64 % p;
    while modpow(r, 2 * n as u64, p) == 1 {
        r = (r + 1) % p;
    }
    // the library's principal roots of unity of order n and 2n (constants of the field; all arithmetic below is ours)
    let logn = n.trailing_zeros() as usize;
    let wn = u32::from(FieldPrio2::root(logn).ok_or("no root of order n")?) as u64;
    let w2n = u32::from(FieldPrio2::root(logn + 1).ok_or("no root of order 2n")?) as u64;
    if modpow(wn, n as u64, p) != 1 || (n > 1 && modpow(wn, n as u64 / 2, p) == 1) || modpow(w2n, 2, p) != wn {
        return Err("the field's advertised roots of unity are not what the reference assumes".into());
    }
    let (data, rest) = sh.split_at(dim);
    let (f0, g0, h0, packed) = (rest[0], rest[1], rest[2], &rest[3..]);
    for (is_leader, agg) in [(true, 0usize), (false, 1usize)] {
        let mut fv = vec![0u64; n];
        fv[0] = f0;
        fv[1..=dim].copy_from_slice(data);
        let mut gv = vec![0u64; n];
        gv[0] = g0;
        for (i, d) in data.iter().enumerate() {
            gv[i + 1] = if is_leader { (*d + p - 1) % p } else { *d };
        }
        let mut hv = vec![0u64; 2 * n];
        hv[0] = h0;
        for (k, x) in packed.iter().enumerate() {
            hv[2 * k + 1] = *x;
        }
        let want = [lagrange_at(&fv, wn, r, p), lagrange_at(&gv, wn, r, p), lagrange_at(&hv, w2n, r, p)];
        let mut wb = Vec::new();
        for x in want {
            wb.extend_from_slice(&(x as u32).to_le_bytes());
        }
        // the share object the aggregator holds: arbitrary elements are a legitimate leader share on the wire
        let lib_share: Share<FieldPrio2, 32> = Share::Leader(sh.iter().map(|x| FieldPrio2::from(*x as u32)).collect());
        let got = guard("Prio2::verify_init_with_query_rand", || vdaf.verify_init_with_query_rand(FieldPrio2::from(r as u32), &lib_share, is_leader));
        match got {
            Err(v) => {
                ctx.fail(v);
                return Ok(());
            }
            Ok(Err(e)) => {
                ctx.fail(Violation::new("C19.verifier", "verifier|refused", format!("len={len}: the verification step refused a well-formed share (aggregator {agg}): {e}")));
                return Ok(());
            }
            Ok(Ok((_, vs))) => {
                let gb = vs.get_encoded().map_err(|e| e.to_string())?;
                ctx.trace.bytes(&gb);
                if gb != wb {
                    let which = (0..3).find(|k| gb.get(4 * k..4 * k + 4) != wb.get(4 * k..4 * k + 4)).map(|k| ["f(r)", "g(r)", "h(r)"][k]).unwrap_or("length");
                    ctx.fail(Violation::new("C19.verifier", format!("verifier|{which}"), format!("len={len} (n={n}), aggregator {agg}: {which} of the verifier share differs from direct evaluation at r={r} of the polynomial through the share's values")));
                    return Ok(());
                }
            }
        }
    }
    ctx.counters.inc("c19.verifier_refinement_ok");
    Ok(())
}

fn exec(plan: &PlanP, counters: &mut Counters) -> Result<RunOut, String> {
    match plan {
        PlanP::R { len, share, r } => {
            let r = guard_run(|| {
                let mut ctx = Ctx::new(counters, ACCEPT);
                exec_r(*len, share, *r, &mut ctx).map(|_| ctx.finish())
            });
            match r {
                Ok(x) => x,
                Err(e) => Err(e),
            }
        }
        PlanP::A { plan } => exec_plan_a("C19", ACCEPT, plan, counters),
        PlanP::Q { len, key, nonce_seed, rand, max_trials, exact_order } => {
            let r = guard_run(|| {
                let mut ctx = Ctx::new(counters, ACCEPT);
                exec_q(*len, &key.0, *nonce_seed, &rand.0, *max_trials, *exact_order, &mut ctx).map(|_| ctx.finish())
            });
            match r {
                Ok(x) => x,
                Err(e) => Err(e),
            }
        }
    }
}

impl Check for CheckPrio2 {
    fn id(&self) -> &'static str {
        "C19"
    }
    fn level(&self) -> &'static str {
        "fault_enumeration"
    }
    fn runs(&self, tier: Tier) -> u64 {
        std::env::var("VERIF_RUNS").ok().and_then(|s| s.parse().ok()).unwrap_or(match tier {
            Tier::Quick => 24_000,
            Tier::Thorough => 600_000,
        })
    }
    fn gen(&self, seed: u64, _run: u64, tier: Tier) -> Value {
        serde_json::to_value(gen_plan(seed, tier)).unwrap()
    }
    fn exec(&self, plan: &Value, counters: &mut Counters) -> Result<RunOut, String> {
        let p: PlanP = serde_json::from_value(plan.clone()).map_err(|e| e.to_string())?;
        exec(&p, counters)
    }
    fn gen_exec(&self, seed: u64, _run: u64, tier: Tier, counters: &mut Counters) -> Result<(RunOut, Option<Value>), String> {
        let p = gen_plan(seed, tier);
        let out = exec(&p, counters)?;
        let keep = out.violation.is_some();
        Ok((out, if keep { Some(serde_json::to_value(&p).unwrap()) } else { None }))
    }
    fn fixed_plans(&self, _tier: Tier) -> Vec<Value> {
        let mut out = Vec::new();
        let mut rng = Rng::new(0xC19);
        for k in [15u32, 14, 13, 12] {
            out.push(serde_json::to_value(PlanP::Q { len: (1 << k) - 1, key: Hx(rng.bytes(32)), nonce_seed: rng.u64(), rand: Hx(rng.bytes(64)), max_trials: 8_000_000, exact_order: false }).unwrap());
        }
        // exact powers of two (and one above): the first candidate is a node of order exactly 2n
        for len in [1u32 << 15, 1 << 14, (1 << 14) + 1, 1 << 13] {
            out.push(serde_json::to_value(PlanP::Q { len, key: Hx(rng.bytes(32)), nonce_seed: rng.u64(), rand: Hx(rng.bytes(64)), max_trials: 8_000_000, exact_order: true }).unwrap());
        }
        // the largest supported input lengths (the field's capacity is 2n <= 2^20): one honest
        // report each, end to end
        for len in [(1u32 << 18) - 1, 1 << 18, (1 << 19) - 1] {
            let mut inst = gen_prio2_inst(&mut rng, true);
            inst.len = len;
            let mut p = base_plan(inst, "honest", &mut rng, 1);
            p.agg = gen_agg_plan(&mut rng, 2, 1, false);
            out.push(serde_json::to_value(PlanP::A { plan: p }).unwrap());
        }
        out
    }
    fn shrink(&self, plan: &Value) -> Vec<Value> {
        let Ok(p) = serde_json::from_value::<PlanP>(plan.clone()) else { return Vec::new() };
        match p {
            PlanP::A { plan } => shrink_plan_a(&plan).into_iter().map(|x| serde_json::to_value(PlanP::A { plan: x }).unwrap()).collect(),
            PlanP::R { len, share, r } => {
                // zero the elements one region at a time, then one by one
                let mut out = Vec::new();
                for i in 0..share.len() {
                    if share[i] != 0 {
                        let mut s2 = share.clone();
                        s2[i] = 0;
                        out.push(serde_json::to_value(PlanP::R { len, share: s2, r }).unwrap());
                    }
                }
                out
            }
            _ => Vec::new(),
        }
    }
    fn rule(&self) -> String {
        "world-A runs of Prio2 (input lengths 1..300 and 2^k-2, 2^k-1, 2^k): honest 0/1 batches with reordering, crash/restart and seeded aggregation schedules vs element-wise sum; Byzantine vectors with one non-binary entry sharded by the library itself; 1..2 alterations of every leader element class, helper seed bytes, verifier-share elements, dropped / extra shares; robust + strict + must-reject with 3-key confirmation (per-key soundness error ~2n/2^32). Plus refinement of the verification step: arbitrary leader-share vectors (lengths 1..130 incl. 2^k-1 and 2^k; random, sparse and boundary elements) and query points, the verifier share (f(r), g(r), h(r)) of either role compared with direct Lagrange evaluation on plain integers of the polynomials the share's values define (h through all 2n points). Plus seeded nonce searches (lengths 2^12-1..2^15-1) for a first query candidate that is a 2n-th root of unity, checking the verifier share equals the one at the first non-root candidate; distinct as C02".into()
    }
    fn assumptions(&self) -> Vec<String> {
        vec![
            "Prio2::shard randomness is the harness tape behind the prio_verif hook; everything after `let mut rng = rng()` is unmodified library code".into(),
            "the query-point search uses the public SeedStreamAes128 + into_field_vec for the candidate stream and harness modular exponentiation for the root test".into(),
        ]
    }
    fn components(&self) -> Value {
        json!({"real": ["Prio2 as Client / Aggregator / Collector", "prio2::client proof construction, prio2::server verification", "Prio2 codecs", "verify_init_with_query_rand"], "stub": ["transport, store, scheduler, drivers", "RNG tape (hook)"]})
    }
}
