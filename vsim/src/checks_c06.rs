//! C06: IDPF / cache world. A key generator (library `Idpf::gen` under the RNG-tape hook) and two
//! evaluators, each evaluating a seeded HISTORY of prefixes over one shared cache of a seeded kind
//! and capacity (including a lossy / evicting one). Oracles: share0 + share1 = the programmed
//! value on the path, zero off it; each party's share is byte-identical to the one computed with
//! no cache; argument errors exactly where specified.

use crate::core::*;
use crate::rng::Rng;
use crate::util::{Counters, Hx, H64};
use crate::wire::{mon_decode, mon_encode};
use bitvec::prelude::*;
use prio::codec::{Decode, Encode, ParameterizedDecode};
use prio::field::{Field255, Field64};
use prio::idpf::{HashMapCache, Idpf, IdpfCache, IdpfInput, IdpfOutputShare, IdpfPublicShare, IdpfValue, NoCache, RingBufferCache};
use prio::vdaf::poplar1::Poplar1IdpfValue;
use serde::{Deserialize, Serialize};
use serde_json::{json, Value};
use std::collections::HashMap;

#[derive(Clone, Debug, Serialize, Deserialize, PartialEq)]
pub struct CacheSpec {
    /// none | hash | ring | faulty
    pub kind: String,
    pub cap: u8,
    /// faulty: chance in 256 to drop an insert / to evict a random entry on insert
    pub drop: u8,
    pub evict: u8,
    pub tape: Vec<u32>,
}

#[derive(Clone, Debug, Serialize, Deserialize, PartialEq)]
pub struct Eval {
    pub party: u8,
    pub prefix: String,
    /// the prefix is handed over as a bit vector that starts `offset` bits into its storage word
    /// (a legal `IdpfInput::from(BitVec)`; logically equal to the aligned input)
    #[serde(default)]
    pub offset: u8,
}

#[derive(Clone, Debug, Serialize, Deserialize, PartialEq)]
pub struct Plan6 {
    /// plain (Field64 / Field255) | poplar (pairs)
    pub vtype: String,
    pub input: String,
    /// canonical encodings of the programmed values: bits-1 inner, then one leaf
    pub values: Vec<Hx>,
    pub ctx: Hx,
    pub nonce: Hx,
    pub tape: Hx,
    pub evals: Vec<Eval>,
    pub caches: Vec<CacheSpec>,
    /// replace party's cache by a fresh one before evaluation index `swap_at`
    pub swap_at: Option<(u8, u16)>,
    /// also exercise the argument errors
    pub misuse: bool,
    /// earlier uses of the SAME `Idpf` object (another report: context, nonce, RNG tape) before
    /// and between the main evaluations: key generation plus full-path evaluations of both keys
    #[serde(default)]
    pub earlier: Vec<Earlier>,
}

#[derive(Clone, Debug, Serialize, Deserialize, PartialEq)]
pub struct Earlier {
    pub ctx: Hx,
    pub nonce: Hx,
    pub tape: Hx,
    /// performed before main evaluation index `at` (0 = before everything)
    pub at: u16,
}

/// A cache that loses and evicts entries but never fabricates one.
struct FaultyCache {
    map: HashMap<Vec<bool>, ([u8; 16], u8)>,
    order: Vec<Vec<bool>>,
    spec: CacheSpec,
    cursor: usize,
    pub hits: u64,
    pub deep_hits: u64,
    pub evictions: u64,
    pub drops: u64,
}

impl FaultyCache {
    fn new(spec: CacheSpec) -> Self {
        FaultyCache { map: HashMap::new(), order: Vec::new(), spec, cursor: 0, hits: 0, deep_hits: 0, evictions: 0, drops: 0 }
    }
    fn draw(&mut self) -> u32 {
        let v = self.spec.tape.get(self.cursor % self.spec.tape.len().max(1)).copied().unwrap_or(0);
        self.cursor += 1;
        v
    }
}

impl IdpfCache for FaultyCache {
    fn get(&self, input: &BitSlice) -> Option<([u8; 16], u8)> {
        let k: Vec<bool> = input.iter().map(|b| *b).collect();
        self.map.get(&k).cloned()
    }
    fn insert(&mut self, input: &BitSlice, values: &([u8; 16], u8)) {
        let k: Vec<bool> = input.iter().map(|b| *b).collect();
        let d = self.draw();
        if (d & 0xff) < self.spec.drop as u32 {
            self.drops += 1;
            return;
        }
        if ((d >> 8) & 0xff) < self.spec.evict as u32 && !self.order.is_empty() {
            let i = (d >> 16) as usize % self.order.len();
            let victim = self.order.remove(i);
            self.map.remove(&victim);
            self.evictions += 1;
        }
        while self.order.len() >= (self.spec.cap as usize).max(1) {
            let victim = self.order.remove(0);
            self.map.remove(&victim);
            self.evictions += 1;
        }
        if self.map.insert(k.clone(), *values).is_none() {
            self.order.push(k);
        }
    }
}

/// Wrapper that counts hits by depth for the shipped caches.
struct Counting<C: IdpfCache> {
    inner: C,
    hits: u64,
    deep_hits: u64,
    misses: u64,
    inserts: u64,
}
impl<C: IdpfCache> IdpfCache for Counting<C> {
    fn get(&self, input: &BitSlice) -> Option<([u8; 16], u8)> {
        self.inner.get(input)
    }
    fn insert(&mut self, input: &BitSlice, values: &([u8; 16], u8)) {
        self.inserts += 1;
        self.inner.insert(input, values)
    }
}

fn make_cache(spec: &CacheSpec) -> Box<dyn IdpfCache> {
    match spec.kind.as_str() {
        "hash" => Box::new(HashMapCache::new()),
        "ring" => Box::new(RingBufferCache::new(spec.cap as usize)),
        "faulty" => Box::new(FaultyCache::new(spec.clone())),
        _ => Box::new(NoCache::new()),
    }
}

pub struct Check06;
pub fn checks() -> Vec<Box<dyn Check>> {
    vec![Box::new(Check06)]
}
const ACCEPT: &[&str] = &["C06.", "panic"];

fn str_bools(s: &str) -> Vec<bool> {
    s.bytes().map(|c| c == b'1').collect()
}

fn canon(rng: &mut Rng, size: usize) -> Vec<u8> {
    // canonical little-endian encodings: 8-byte values below p64, 32-byte values below 2^248
    match size {
        8 => {
            let v = match rng.below(5) {
                0 => 0u64,
                1 => 1,
                2 => (crate::model::P64 - 1) as u64,
                _ => rng.u64() % (crate::model::P64 as u64),
            };
            v.to_le_bytes().to_vec()
        }
        _ => {
            let mut b = rng.bytes(32);
            b[31] &= 0x3f;
            match rng.below(5) {
                0 => vec![0; 32],
                1 => {
                    let mut o = vec![0; 32];
                    o[0] = 1;
                    o
                }
                _ => b,
            }
        }
    }
}

fn gen(seed: u64, tier: Tier) -> Plan6 {
    let mut rng = Rng::new(seed);
    let rng = &mut rng;
    let bits = match rng.below(40) {
        0 => 64,
        1 => if tier == Tier::Thorough { 320 } else { 65 },
        // around the machine-word boundaries of any packed prefix representation
        2 => *rng.pick(&[63usize, 66, 72, 127, 128, 129, 130]),
        _ => 1 + rng.usize_below(12),
    };
    let vtype = if rng.chance(1, 2) { "plain" } else { "poplar" };
    let k = if vtype == "plain" { 1 } else { 2 };
    let input: String = (0..bits).map(|_| if rng.chance(1, 2) { '1' } else { '0' }).collect();
    let mut values = Vec::new();
    for _ in 0..bits - 1 {
        let mut b = Vec::new();
        for _ in 0..k {
            b.extend(canon(rng, 8));
        }
        values.push(Hx(b));
    }
    let mut b = Vec::new();
    for _ in 0..k {
        b.extend(canon(rng, 32));
    }
    values.push(Hx(b));
    // evaluation history
    let mut evals = Vec::new();
    if bits <= 6 && rng.chance(1, 3) {
        // all prefixes of all lengths, in a seeded order, for both parties
        let mut all: Vec<String> = Vec::new();
        for l in 1..=bits {
            for v in 0..(1u32 << l) {
                all.push((0..l).map(|i| if (v >> (l - 1 - i)) & 1 == 1 { '1' } else { '0' }).collect());
            }
        }
        for party in 0..2u8 {
            let mut a = all.clone();
            rng.shuffle(&mut a);
            evals.extend(a.into_iter().map(|prefix| Eval { party, prefix, offset: 0 }));
        }
        if rng.chance(1, 2) {
            rng.shuffle(&mut evals);
        }
    } else {
        let n = 1 + rng.usize_below(40);
        let mut recent: Vec<String> = Vec::new();
        for _ in 0..n {
            let mut l = 1 + rng.usize_below(bits);
            if bits > 16 && rng.chance(1, 2) {
                // long instances: prefix lengths at and around the word boundaries and the leaf
                let c = *rng.pick(&[31usize, 32, 33, 63, 64, 65, 66, 127, 128, 129, usize::MAX - 1, usize::MAX]);
                l = if c == usize::MAX { bits } else if c == usize::MAX - 1 { bits - 1 } else { c.min(bits) };
            }
            let p: String = match rng.below(8) {
                0 | 1 | 2 => input[..l].to_string(),
                3 => {
                    // sibling of the on-path node
                    let mut s = input[..l].to_string().into_bytes();
                    s[l - 1] = if s[l - 1] == b'1' { b'0' } else { b'1' };
                    String::from_utf8(s).unwrap()
                }
                4 => {
                    // diverge at a random depth
                    let d = rng.usize_below(l);
                    let mut s = input[..l].to_string().into_bytes();
                    s[d] = if s[d] == b'1' { b'0' } else { b'1' };
                    for x in s.iter_mut().skip(d + 1) {
                        if rng.chance(1, 2) {
                            *x = if *x == b'1' { b'0' } else { b'1' };
                        }
                    }
                    String::from_utf8(s).unwrap()
                }
                5 if !recent.is_empty() => {
                    // repeat, or longer-then-shorter / extension of an earlier request
                    let r = recent[rng.usize_below(recent.len())].clone();
                    match rng.below(3) {
                        0 => r,
                        1 => r[..1 + rng.usize_below(r.len())].to_string(),
                        _ => {
                            let mut r = r;
                            while r.len() < bits && rng.chance(2, 3) {
                                r.push(if rng.chance(1, 2) { '1' } else { '0' });
                            }
                            r
                        }
                    }
                }
                _ => (0..l).map(|_| if rng.chance(1, 2) { '1' } else { '0' }).collect(),
            };
            recent.push(p.clone());
            // usually both parties evaluate the same prefix (so the sum can be checked)
            let off = |rng: &mut Rng| if rng.chance(1, 4) { 1 + rng.below(70) as u8 } else { 0 };
            if rng.chance(4, 5) {
                evals.push(Eval { party: 0, prefix: p.clone(), offset: off(rng) });
                evals.push(Eval { party: 1, prefix: p, offset: off(rng) });
            } else {
                evals.push(Eval { party: rng.below(2) as u8, prefix: p, offset: off(rng) });
            }
        }
    }
    let caches: Vec<CacheSpec> = (0..2)
        .map(|_| {
            let kind = *rng.pick(&["none", "hash", "ring", "ring", "faulty", "faulty"]);
            CacheSpec { kind: kind.to_string(), cap: rng.below(9) as u8, drop: *rng.pick(&[0u8, 0, 40, 128]), evict: *rng.pick(&[0u8, 40, 128, 255]), tape: (0..16).map(|_| rng.u32()).collect() }
        })
        .collect();
    let swap_at = if rng.chance(1, 4) { Some((rng.below(2) as u8, rng.below(evals.len() as u64) as u16)) } else { None };
    let cl = rng.usize_below(12);
    let ctxb = rng.bytes(cl);
    let nonce = rng.bytes(16);
    let mut earlier = Vec::new();
    if rng.chance(1, 3) {
        for _ in 0..1 + rng.below(2) {
            let l2 = rng.usize_below(6);
            let mut c2 = rng.bytes(l2);
            if c2 == ctxb {
                c2.push(1);
            }
            let n2 = if rng.chance(1, 2) { nonce.clone() } else { rng.bytes(16) };
            let t2 = rng.bytes(32);
            let e = Earlier { ctx: Hx(c2), nonce: Hx(n2), tape: Hx(t2), at: if rng.chance(1, 2) { 0 } else { rng.below(evals.len() as u64 + 1) as u16 } };
            earlier.push(e);
        }
    }
    Plan6 { vtype: vtype.to_string(), input, values, ctx: Hx(ctxb), nonce: Hx(nonce), tape: Hx(rng.bytes(32)), evals, caches, swap_at, misuse: rng.chance(1, 8), earlier }
}

fn run<VI, VL>(p: &Plan6, ctx: &mut Ctx) -> Result<(), String>
where
    VI: IdpfValue<ValueParameter = ()> + Decode + Clone,
    VL: IdpfValue<ValueParameter = ()> + Decode + Clone,
{
    let bits = p.input.len();
    ctx.sig.str("C06").str(&p.vtype).u64(bits.min(13) as u64).str(&p.caches[0].kind).str(&p.caches[1].kind).u64(p.caches[0].cap as u64).u64(p.caches[1].cap as u64).u64(p.evals.len() as u64 / 8).u64(p.swap_at.is_some() as u64);
    ctx.counters.inc(&format!("cache.{}", p.caches[0].kind));
    ctx.counters.inc(&format!("cache.{}", p.caches[1].kind));
    let input = IdpfInput::from_bools(&str_bools(&p.input));
    let inner: Vec<VI> = p.values[..bits - 1].iter().map(|b| VI::get_decoded(&b.0)).collect::<Result<_, _>>().map_err(|e| format!("harness value: {e}"))?;
    let leaf = VL::get_decoded(&p.values[bits - 1].0).map_err(|e| format!("harness value: {e}"))?;
    let idpf: Idpf<VI, VL> = Idpf::new((), ());
    prio::verif_hooks::install_tape(p.tape.0.clone());
    let g = guard("Idpf::gen", || idpf.gen(&input, inner.clone(), leaf.clone(), &p.ctx.0, &p.nonce.0));
    let used = prio::verif_hooks::remove_tape();
    let (public, keys) = match g {
        Ok(Ok(x)) => x,
        Ok(Err(e)) => {
            ctx.fail(Violation::new("C06.gen", "gen|err", format!("Idpf::gen refused a valid input of {bits} bits: {e}")));
            return Ok(());
        }
        Err(v) => {
            ctx.fail(v);
            return Ok(());
        }
    };
    if used != 32 {
        return Err(format!("Idpf::gen consumed {used} tape bytes, expected 32 (hook inactive or RNG use changed)"));
    }
    ctx.nontrivial = true;
    // the public share crosses the wire
    let Some(pb) = mon_encode(ctx, "IdpfPublicShare", &public) else { return Ok(()) };
    let Some(public) = mon_decode(ctx, "IdpfPublicShare", &pb, 64 * bits + 128, |b| IdpfPublicShare::<VI, VL>::get_decoded_with_param(&bits, b), |v| v.get_encoded(), |v| v.encoded_len()) else {
        ctx.fail(Violation::new("C06.public_share", "public|undecodable", "the generated public share does not decode from its own encoding"));
        return Ok(());
    };
    ctx.trace.bytes(&pb);
    // another report handled by the same Idpf object: its own keys, context and nonce
    let run_earlier = |e: &Earlier, ctx: &mut Ctx| -> Result<(), String> {
        prio::verif_hooks::install_tape(e.tape.0.clone());
        let g = guard("Idpf::gen", || idpf.gen(&input, inner.clone(), leaf.clone(), &e.ctx.0, &e.nonce.0));
        prio::verif_hooks::remove_tape();
        let (pu, ks) = match g {
            Ok(Ok(x)) => x,
            Ok(Err(err)) => return Err(format!("earlier gen failed: {err}")),
            Err(v) => {
                ctx.fail(v);
                return Ok(());
            }
        };
        let mut outs = Vec::new();
        for party in 0..2 {
            match guard("Idpf::eval", || idpf.eval(party, &pu, &ks[party], &input, &e.ctx.0, &e.nonce.0, &mut NoCache::new())) {
                Ok(Ok(o)) => outs.push(o),
                Ok(Err(err)) => return Err(format!("earlier eval failed: {err}")),
                Err(v) => {
                    ctx.fail(v);
                    return Ok(());
                }
            }
        }
        let b = outs.pop().unwrap();
        let a = outs.pop().unwrap();
        if let Ok(Ok(IdpfOutputShare::Leaf(v))) = guard("IdpfOutputShare::merge", || a.merge(b)) {
            if v.get_encoded().map_err(|e| e.to_string())? != p.values[bits - 1].0 {
                ctx.fail(Violation::new("C06.point_function", "sum|on_path|object_history", "shares of another report handled by the same Idpf object do not reconstruct its leaf value".to_string()));
            }
        }
        ctx.fault("idpf_object_reused_for_another_report");
        Ok(())
    };
    for e in p.earlier.iter().filter(|e| e.at == 0) {
        run_earlier(e, ctx)?;
    }
    let mut caches: Vec<Box<dyn IdpfCache>> = p.caches.iter().map(make_cache).collect();
    // pending shares per prefix, to add the two parties' results
    let mut shares: HashMap<(u8, String), Vec<u8>> = HashMap::new();
    let zero_i = VI::zero(&()).get_encoded().map_err(|e| e.to_string())?;
    let zero_l = VL::zero(&()).get_encoded().map_err(|e| e.to_string())?;
    for (idx, e) in p.evals.iter().enumerate() {
        let party = (e.party % 2) as usize;
        for x in p.earlier.iter().filter(|x| x.at as usize == idx && idx > 0) {
            run_earlier(x, ctx)?;
        }
        if ctx.failed() {
            return Ok(());
        }
        if let Some((sp, at)) = p.swap_at {
            if at as usize == idx {
                caches[sp as usize % 2] = make_cache(&p.caches[sp as usize % 2]);
                ctx.fault("cache_replaced_by_fresh");
            }
        }
        let prefix = if e.offset == 0 {
            IdpfInput::from_bools(&str_bools(&e.prefix))
        } else {
            // same bits, stored `offset` bits into the first storage word
            let mut bv: BitVec<usize, Lsb0> = BitVec::new();
            for i in 0..e.offset as usize {
                bv.push(i % 3 == 0);
            }
            for b in str_bools(&e.prefix) {
                bv.push(b);
            }
            ctx.probe("unaligned_prefix_storage");
            IdpfInput::from(bv[e.offset as usize..].to_bitvec())
        };
        ctx.events += 1;
        let with_cache = guard("Idpf::eval", || idpf.eval(party, &public, &keys[party], &prefix, &p.ctx.0, &p.nonce.0, caches[party].as_mut()));
        let without = guard("Idpf::eval", || idpf.eval(party, &public, &keys[party], &prefix, &p.ctx.0, &p.nonce.0, &mut NoCache::new()));
        let (a, b) = match (with_cache, without) {
            (Ok(a), Ok(b)) => (a, b),
            (Err(v), _) | (_, Err(v)) => {
                ctx.fail(v);
                return Ok(());
            }
        };
        let enc = |o: &IdpfOutputShare<VI, VL>| -> Result<(bool, Vec<u8>), String> {
            match o {
                IdpfOutputShare::Inner(v) => Ok((false, v.get_encoded().map_err(|e| e.to_string())?)),
                IdpfOutputShare::Leaf(v) => Ok((true, v.get_encoded().map_err(|e| e.to_string())?)),
            }
        };
        match (a, b) {
            (Ok(a), Ok(b)) => {
                let (la, ab) = enc(&a)?;
                let (lb, bb) = enc(&b)?;
                ctx.trace.bytes(&ab);
                if la != lb || ab != bb {
                    ctx.fail(Violation::new(
                        "C06.transparency",
                        format!("cache|{}", p.caches[party].kind),
                        format!("party {party}: evaluating prefix {} with the {} cache (capacity {}) after {idx} earlier evaluations differs from the cache-free evaluation", e.prefix, p.caches[party].kind, p.caches[party].cap),
                    ));
                    return Ok(());
                }
                if la != (e.prefix.len() == bits) {
                    ctx.fail(Violation::new("C06.level", "eval|level_kind", format!("prefix of length {} at bits {bits} evaluated to the wrong level kind", e.prefix.len())));
                    return Ok(());
                }
                // reconstruct when the other party's share for this prefix is known
                if let Some(ob) = shares.get(&(1 - party as u8, e.prefix.clone())) {
                    let other = if la { IdpfOutputShare::Leaf(VL::get_decoded(ob).map_err(|e| e.to_string())?) } else { IdpfOutputShare::Inner(VI::get_decoded(ob).map_err(|e| e.to_string())?) };
                    let sum = match guard("IdpfOutputShare::merge", || b.merge(other)) {
                        Ok(Ok(s)) => s,
                        Ok(Err(e)) => {
                            ctx.fail(Violation::new("C06.merge", "merge|err", format!("merging two shares of the same level failed: {e}")));
                            return Ok(());
                        }
                        Err(v) => {
                            ctx.fail(v);
                            return Ok(());
                        }
                    };
                    let (_, sb) = enc(&sum)?;
                    let on_path = p.input.starts_with(&e.prefix);
                    let want: &Vec<u8> = if on_path { &p.values[e.prefix.len() - 1].0 } else if la { &zero_l } else { &zero_i };
                    ctx.counters.inc(if on_path { "c06.reconstructed_on_path" } else { "c06.reconstructed_off_path" });
                    if sb != *want {
                        ctx.fail(Violation::new(
                            "C06.point_function",
                            format!("sum|{}", if on_path { "on_path" } else { "off_path" }),
                            format!("shares at prefix {} (input {}) sum to {} but the programmed point function gives {}", e.prefix, p.input, crate::util::hex(&sb[..sb.len().min(40)]), crate::util::hex(&want[..want.len().min(40)])),
                        ));
                        return Ok(());
                    }
                }
                shares.insert((party as u8, e.prefix.clone()), bb);
            }
            (Err(_), Err(_)) => {
                ctx.fail(Violation::new("C06.eval", "eval|err", format!("eval refused a valid prefix {} ({} bits instance)", e.prefix, bits)));
                return Ok(());
            }
            _ => {
                ctx.fail(Violation::new("C06.transparency", "cache|ok_err", format!("party {party}: with and without cache disagree on success for prefix {}", e.prefix)));
                return Ok(());
            }
        }
    }
    if p.misuse {
        ctx.fault("caller_misuse");
        // empty prefix, over-long prefix, aggregator id > 1: errors, nothing else
        let cases: Vec<(usize, IdpfInput, &str)> = vec![
            (0, IdpfInput::from_bools(&[]), "empty prefix"),
            (1, IdpfInput::from_bools(&vec![true; bits + 1]), "prefix longer than bits"),
            (2, IdpfInput::from_bools(&str_bools(&p.input)), "aggregator id 2"),
            (usize::MAX, IdpfInput::from_bools(&[true]), "aggregator id usize::MAX"),
        ];
        for (agg, pre, what) in cases {
            let key = &keys[agg.min(1)];
            match guard("Idpf::eval(misuse)", || idpf.eval(agg, &public, key, &pre, &p.ctx.0, &p.nonce.0, &mut NoCache::new())) {
                Ok(Err(_)) => ctx.counters.inc("c06.misuse_refused"),
                Ok(Ok(_)) => {
                    ctx.fail(Violation::new("C06.eval", "eval|accepts_misuse", format!("eval accepted {what}")));
                    return Ok(());
                }
                Err(v) => {
                    ctx.fail(v);
                    return Ok(());
                }
            }
        }
        // gen with the wrong number of inner values / empty input
        let g = guard("Idpf::gen(misuse)", || idpf.gen(&input, inner.iter().cloned().chain(std::iter::once(inner.first().cloned().unwrap_or(VI::zero(&())))), leaf.clone(), &p.ctx.0, &p.nonce.0));
        match g {
            Ok(Err(_)) => ctx.counters.inc("c06.misuse_refused"),
            Ok(Ok(_)) => {
                ctx.fail(Violation::new("C06.gen", "gen|accepts_extra_values", "gen accepted one inner value too many"));
                return Ok(());
            }
            Err(v) => {
                ctx.fail(v);
                return Ok(());
            }
        }
    }
    let mut h = H64::new();
    h.u64(shares.len() as u64);
    ctx.trace.u64(h.finish());
    Ok(())
}

fn exec_top(p: &Plan6, counters: &mut Counters) -> Result<RunOut, String> {
    let r = guard_run(|| {
        let mut ctx = Ctx::new(counters, ACCEPT);
        let r = if p.vtype == "plain" { run::<Field64, Field255>(p, &mut ctx) } else { run::<Poplar1IdpfValue<Field64>, Poplar1IdpfValue<Field255>>(p, &mut ctx) };
        r.map(|_| ctx.finish())
    });
    match r {
        Ok(x) => x,
        Err(e) => Err(e),
    }
}

impl Check for Check06 {
    fn id(&self) -> &'static str {
        "C06"
    }
    fn level(&self) -> &'static str {
        "exploration"
    }
    fn runs(&self, tier: Tier) -> u64 {
        std::env::var("VERIF_RUNS").ok().and_then(|s| s.parse().ok()).unwrap_or(match tier {
            Tier::Quick => 40_000,
            Tier::Thorough => 1_500_000,
        })
    }
    fn gen(&self, seed: u64, _run: u64, tier: Tier) -> Value {
        serde_json::to_value(gen(seed, tier)).unwrap()
    }
    fn exec(&self, plan: &Value, counters: &mut Counters) -> Result<RunOut, String> {
        let p: Plan6 = serde_json::from_value(plan.clone()).map_err(|e| e.to_string())?;
        exec_top(&p, counters)
    }
    fn gen_exec(&self, seed: u64, _run: u64, tier: Tier, counters: &mut Counters) -> Result<(RunOut, Option<Value>), String> {
        let p = gen(seed, tier);
        let out = exec_top(&p, counters)?;
        let keep = out.violation.is_some();
        Ok((out, if keep { Some(serde_json::to_value(&p).unwrap()) } else { None }))
    }
    fn shrink(&self, plan: &Value) -> Vec<Value> {
        let Ok(p) = serde_json::from_value::<Plan6>(plan.clone()) else { return Vec::new() };
        let mut out = Vec::new();
        for i in 0..p.evals.len() {
            let mut q = p.clone();
            q.evals.remove(i);
            q.swap_at = None;
            out.push(q);
        }
        if p.swap_at.is_some() {
            let mut q = p.clone();
            q.swap_at = None;
            out.push(q);
        }
        if p.misuse {
            let mut q = p.clone();
            q.misuse = false;
            out.push(q);
        }
        out.into_iter().map(|x| serde_json::to_value(x).unwrap()).collect()
    }
    fn rule(&self) -> String {
        "seeded IDPF instances (bits 1..12, sometimes 63..66 / 72 / 127..130 / 320 with prefix lengths at the word boundaries; plain Field64/Field255 values and Poplar1 value pairs; arbitrary programmed values) with evaluation histories of 1..80 requests per run sharing one cache per party: on-path prefixes, siblings, divergence at every depth, repeats, longer-then-shorter, extensions, or all prefixes of all lengths when bits <= 6 in a seeded order; caches: NoCache, HashMapCache, RingBufferCache(0..8), FaultyCache (bounded, dropping, randomly evicting), optionally replaced by a fresh one mid-history; distinct = distinct (value type, bits, cache kinds and capacities, history length class, swap) signatures".into()
    }
    fn assumptions(&self) -> Vec<String> {
        vec!["Idpf::gen randomness is the harness tape behind the prio_verif hook".into(), "FaultyCache never fabricates an entry (that would break the IdpfCache contract, not the library)".into()]
    }
    fn components(&self) -> Value {
        json!({"real": ["Idpf::gen, Idpf::eval, IdpfOutputShare::merge", "IdpfPublicShare codec", "NoCache, HashMapCache, RingBufferCache", "XofFixedKeyAes128 / XofTurboShake128 underneath"], "stub": ["FaultyCache", "evaluation-history scheduler", "point-function reference"]})
    }
}
