//! World B: ping-pong world. A leader and a helper are driven ONLY through
//! `PingPongTopology::{leader_initialized, helper_initialized, leader_continued, helper_continued}`
//! and `PingPongContinuation::{evaluate, encode, decode}`. Every library call is mirrored by the
//! reference model (DESIGN Appendix A), written against the bare `Aggregator` trait.
//! Stub: transport (message log), durable store (encoded bytes), scheduler, model.

use crate::core::{guard, Ctx, Violation};
use crate::inst::{ApSpec, Inst, SimVdaf};
use crate::util::{Hx, N};
use crate::wire::{mon_decode, mon_encode};
use crate::world_a::Mutation;
use prio::codec::{Decode, Encode, ParameterizedDecode};
use prio::topology::ping_pong::{PingPongMessage, PingPongState, PingPongTopology};
use prio::vdaf::VerifyTransition;
use serde::{Deserialize, Serialize};

#[derive(Clone, Debug, Serialize, Deserialize, PartialEq)]
pub struct Exch {
    pub nonce: Hx,
    pub rand: Hx,
    pub meas: Vec<N>,
    pub in0: u64,
    pub in1: u64,
}

#[derive(Clone, Debug, Serialize, Deserialize, PartialEq)]
#[serde(tag = "s")]
pub enum Src {
    Genuine,
    /// any message ever sent: exchange, direction (0 = leader->helper), index (mod count)
    Replay { ex2: u8, dir: u8, idx: u8 },
}

#[derive(Clone, Debug, Serialize, Deserialize, PartialEq)]
#[serde(tag = "f")]
pub enum FrameMut {
    Retype { tag: u8 },
    SwapFields,
    Raw { m: Mutation },
    /// mutate inside payload field `field`, fixing up its length prefix
    Payload { field: u8, m: Mutation },
    /// set the u32 length prefix of payload field `field`
    Len { field: u8, val: u32 },
}

#[derive(Clone, Debug, Serialize, Deserialize, PartialEq)]
#[serde(tag = "k")]
pub enum Step {
    Deliver { ex: u8, to: u8, src: Src, frame: Option<FrameMut> },
    /// crash + restart: reload from the durable bytes and evaluate `evals` times
    Restart { ex: u8, party: u8, evals: u8 },
    /// corrupt the stored continuation / verify state bytes (codec checks only), then reload them
    CorruptStore { ex: u8, party: u8, m: Mutation },
}

#[derive(Clone, Debug, Serialize, Deserialize, PartialEq)]
pub struct PlanB {
    /// trace | dummy | prio3 | poplar1
    pub vdaf: String,
    pub rounds: u8,
    pub inst: Option<Inst>,
    pub ap: ApSpec,
    pub ap_byte: u8,
    pub ctx: Hx,
    pub vk: Hx,
    pub exchanges: Vec<Exch>,
    pub steps: Vec<Step>,
    /// none | listed | all — which fault kinds the generator was allowed to use
    pub faults: String,
}

/// Shares and parameters of one exchange, as library objects.
pub struct Setup<V: prio::vdaf::Vdaf> {
    pub public: V::PublicShare,
    pub inputs: [V::InputShare; 2],
}

enum Stage {
    Start,
    LeaderWait(Vec<u8>),
    Cont(Vec<u8>),
    Done,
}

struct Party<S> {
    stage: Stage,
    mem_state: Option<S>,
    processed: usize,
    out: Option<Vec<u8>>,
    /// recorded results of the original evaluation of the stored continuation
    last_eval: Option<(Option<Vec<u8>>, Option<Vec<u8>>, Option<Vec<u8>>)>,
    accepted_nongenuine: bool,
}

// ---- reference model (Appendix A) ---------------------------------------------------------

enum MOut<V: SimVdaf<VK>, const VK: usize> {
    Transition { prev: V::VerifyState, vm: V::VerifierMessage },
    Finished(V::OutputShare),
}

enum MState {
    Continued { state: Vec<u8>, msg: Vec<u8> },
    FinishedWithOutbound { out: Vec<u8>, msg: Vec<u8> },
    Finished { out: Vec<u8> },
}

fn m_helper_init<V: SimVdaf<VK>, const VK: usize>(v: &V, vk: &[u8; VK], ctx: &[u8], ap: &V::AggregationParam, nonce: &[u8; 16], su: &Setup<V>, inbound: &PingPongMessage) -> Result<MOut<V, VK>, ()> {
    let (st, sh) = v.verify_init(vk, ctx, 1, ap, nonce, &su.public, &su.inputs[1]).map_err(|_| ())?;
    let PingPongMessage::Initialize { verifier_share } = inbound else { return Err(()) };
    let peer = V::VerifierShare::get_decoded_with_param(&st, verifier_share).map_err(|_| ())?;
    let vm = v.verifier_shares_to_message(ctx, ap, [peer, sh]).map_err(|_| ())?;
    Ok(MOut::Transition { prev: st, vm })
}

fn m_continued<V: SimVdaf<VK>, const VK: usize>(v: &V, is_leader: bool, ctx: &[u8], ap: &V::AggregationParam, st: V::VerifyState, inbound: &PingPongMessage) -> Result<MOut<V, VK>, ()> {
    let (vmb, peer_share) = match inbound {
        PingPongMessage::Initialize { .. } => return Err(()),
        PingPongMessage::Continue { verifier_message, verifier_share } => (verifier_message, Some(verifier_share)),
        PingPongMessage::Finish { verifier_message } => (verifier_message, None),
    };
    let vm = V::VerifierMessage::get_decoded_with_param(&st, vmb).map_err(|_| ())?;
    let t = v.verify_next(ctx, st, vm).map_err(|_| ())?;
    match (t, peer_share) {
        (VerifyTransition::Continue(st2, sh2), Some(pb)) => {
            let peer = V::VerifierShare::get_decoded_with_param(&st2, pb).map_err(|_| ())?;
            let shares = if is_leader { [sh2, peer] } else { [peer, sh2] };
            let vm2 = v.verifier_shares_to_message(ctx, ap, shares).map_err(|_| ())?;
            Ok(MOut::Transition { prev: st2, vm: vm2 })
        }
        (VerifyTransition::Finish(out), None) => Ok(MOut::Finished(out)),
        _ => Err(()),
    }
}

fn m_eval<V: SimVdaf<VK>, const VK: usize>(v: &V, ctx: &[u8], m: &MOut<V, VK>) -> Result<MState, ()> {
    match m {
        MOut::Finished(out) => Ok(MState::Finished { out: out.get_encoded().map_err(|_| ())? }),
        MOut::Transition { prev, vm } => {
            let vmb = vm.get_encoded().map_err(|_| ())?;
            match v.verify_next(ctx, prev.clone(), vm.clone()).map_err(|_| ())? {
                VerifyTransition::Continue(st, sh) => {
                    let msg = PingPongMessage::Continue { verifier_message: vmb, verifier_share: sh.get_encoded().map_err(|_| ())? };
                    Ok(MState::Continued { state: V::enc_state(&st).map_err(|_| ())?, msg: msg.get_encoded().map_err(|_| ())? })
                }
                VerifyTransition::Finish(out) => {
                    let msg = PingPongMessage::Finish { verifier_message: vmb };
                    Ok(MState::FinishedWithOutbound { out: out.get_encoded().map_err(|_| ())?, msg: msg.get_encoded().map_err(|_| ())? })
                }
            }
        }
    }
}

/// Direct broadcast execution: expected output shares (leader, helper) and the number of rounds.
fn broadcast<V: SimVdaf<VK>, const VK: usize>(v: &V, vk: &[u8; VK], ctx: &[u8], ap: &V::AggregationParam, nonce: &[u8; 16], su: &Setup<V>) -> Result<([Vec<u8>; 2], usize), String> {
    let (mut s0, sh0) = v.verify_init(vk, ctx, 0, ap, nonce, &su.public, &su.inputs[0]).map_err(|e| e.to_string())?;
    let (mut s1, sh1) = v.verify_init(vk, ctx, 1, ap, nonce, &su.public, &su.inputs[1]).map_err(|e| e.to_string())?;
    let mut shares = [sh0, sh1];
    let mut rounds = 0;
    loop {
        rounds += 1;
        let vm = v.verifier_shares_to_message(ctx, ap, shares.clone()).map_err(|e| e.to_string())?;
        let t0 = v.verify_next(ctx, s0.clone(), vm.clone()).map_err(|e| e.to_string())?;
        let t1 = v.verify_next(ctx, s1.clone(), vm).map_err(|e| e.to_string())?;
        match (t0, t1) {
            (VerifyTransition::Finish(o0), VerifyTransition::Finish(o1)) => {
                return Ok(([o0.get_encoded().map_err(|e| e.to_string())?, o1.get_encoded().map_err(|e| e.to_string())?], rounds));
            }
            (VerifyTransition::Continue(a, b), VerifyTransition::Continue(c, d)) => {
                s0 = a;
                s1 = c;
                shares = [b, d];
            }
            _ => return Err("aggregators disagree on the number of rounds".into()),
        }
        if rounds > 64 {
            return Err("too many rounds".into());
        }
    }
}

// ---- frame surgery --------------------------------------------------------------------------

/// Parse tag + length-prefixed fields without the library (harness view of the frame).
fn parse_frame(b: &[u8]) -> Option<(u8, Vec<Vec<u8>>)> {
    if b.is_empty() {
        return None;
    }
    let tag = b[0];
    let nf = match tag {
        0 | 2 => 1,
        1 => 2,
        _ => return None,
    };
    let mut off = 1;
    let mut fields = Vec::new();
    for _ in 0..nf {
        if off + 4 > b.len() {
            return None;
        }
        let l = u32::from_be_bytes([b[off], b[off + 1], b[off + 2], b[off + 3]]) as usize;
        off += 4;
        if off + l > b.len() {
            return None;
        }
        fields.push(b[off..off + l].to_vec());
        off += l;
    }
    if off != b.len() {
        return None;
    }
    Some((tag, fields))
}

fn build_frame(tag: u8, fields: &[Vec<u8>]) -> Vec<u8> {
    let mut b = vec![tag];
    for f in fields {
        b.extend_from_slice(&(f.len() as u32).to_be_bytes());
        b.extend_from_slice(f);
    }
    b
}

fn raw_mut(b: &mut Vec<u8>, m: &Mutation) {
    match m {
        Mutation::Flip { pos, bit } if !b.is_empty() => {
            let p = *pos as usize % b.len();
            b[p] ^= 1 << (bit % 8);
        }
        Mutation::Set { pos, val } if !b.is_empty() => {
            let p = *pos as usize % b.len();
            b[p] = *val;
        }
        Mutation::Trunc { keep } if !b.is_empty() => {
            let k = *keep as usize % b.len();
            b.truncate(k);
        }
        Mutation::Extend { extra } => b.extend_from_slice(&extra.0),
        Mutation::FieldAdd { elem, delta, .. } if b.len() >= 8 => {
            // treat as little-endian 8-byte words (harness does not know the payload layout here)
            let cnt = b.len() / 8;
            let e = *elem as usize % cnt;
            let mut w = [0u8; 8];
            w.copy_from_slice(&b[e * 8..e * 8 + 8]);
            let v = u64::from_le_bytes(w).wrapping_add(delta.0 as u64 | 1);
            b[e * 8..e * 8 + 8].copy_from_slice(&v.to_le_bytes());
        }
        Mutation::FieldSet { elem, raw, .. } if b.len() >= 8 && raw.0.len() >= 8 => {
            let cnt = b.len() / 8;
            let e = *elem as usize % cnt;
            b[e * 8..e * 8 + 8].copy_from_slice(&raw.0[..8]);
        }
        _ => {}
    }
}

#[derive(Clone, Copy, Debug, PartialEq, Eq)]
enum FaultClass {
    Genuine,
    ReplaySame,
    Splice,
    Retype,
    PayloadLen,
    PayloadCorrupt,
    RawFrame,
}

pub struct WorldB<'p, 'c, 'cc, V: SimVdaf<VK>, const VK: usize> {
    pub vdaf: &'p V,
    pub plan: &'p PlanB,
    pub ctx: &'c mut Ctx<'cc>,
    pub setups: Vec<Setup<V>>,
    pub ap: V::AggregationParam,
    vk: [u8; VK],
    parties: Vec<[Party<V::VerifyState>; 2]>,
    /// sent[ex][dir] : encoded PingPongMessage frames, dir 0 = leader->helper
    sent: Vec<[Vec<Vec<u8>>; 2]>,
    honest: Vec<[Vec<u8>; 2]>,
    rounds: usize,
    refusals_expected: bool,
}

impl<'p, 'c, 'cc, V: SimVdaf<VK>, const VK: usize> WorldB<'p, 'c, 'cc, V, VK> {
    pub fn new(vdaf: &'p V, plan: &'p PlanB, ctx: &'c mut Ctx<'cc>, setups: Vec<Setup<V>>, ap: V::AggregationParam, refusals_expected: bool) -> Result<Self, String> {
        let mut vk = [0u8; VK];
        if plan.vk.0.len() < VK {
            return Err("verify key too short".into());
        }
        vk.copy_from_slice(&plan.vk.0[..VK]);
        let mut honest = Vec::new();
        let mut rounds = 0;
        for (i, su) in setups.iter().enumerate() {
            let mut nonce = [0u8; 16];
            nonce.copy_from_slice(&plan.exchanges[i].nonce.0);
            let r = guard("broadcast reference", || broadcast(vdaf, &vk, &plan.ctx.0, &ap, &nonce, su));
            match r {
                Ok(Ok((o, r))) => {
                    honest.push(o);
                    rounds = r;
                }
                // a broadcast execution that fails on an honest report is C01 / C03 territory; the
                // ping-pong world has no reference to compare with, so the run is skipped (counted)
                Ok(Err(_)) => return Err("SKIP".into()),
                Err(v) => return Err(v.detail),
            }
        }
        let parties = setups.iter().map(|_| [Self::fresh(), Self::fresh()]).collect();
        let sent = setups.iter().map(|_| [Vec::new(), Vec::new()]).collect();
        Ok(WorldB { vdaf, plan, ctx, setups, ap, vk, parties, sent, honest, rounds, refusals_expected })
    }

    fn fresh() -> Party<V::VerifyState> {
        Party { stage: Stage::Start, mem_state: None, processed: 0, out: None, last_eval: None, accepted_nongenuine: false }
    }

    fn nonce(&self, ex: usize) -> [u8; 16] {
        let mut n = [0u8; 16];
        n.copy_from_slice(&self.plan.exchanges[ex].nonce.0);
        n
    }

    /// Leader's first step.
    fn leader_init(&mut self, ex: usize) {
        let v = self.vdaf;
        let nonce = self.nonce(ex);
        let su = &self.setups[ex];
        self.ctx.nontrivial = true;
        let r = guard("leader_initialized", || v.leader_initialized(&self.vk, &self.plan.ctx.0, &self.ap, &nonce, &su.public, &su.inputs[0]));
        // model
        let m = v.verify_init(&self.vk, &self.plan.ctx.0, 0, &self.ap, &nonce, &su.public, &su.inputs[0]);
        match (r, m) {
            (Err(pv), _) => self.ctx.fail(pv),
            (Ok(Err(_)), Err(_)) => {}
            (Ok(Ok(c)), Ok((mst, msh))) => {
                let sb = V::enc_state(&c.verifier_state).unwrap_or_default();
                let msb = V::enc_state(&mst).unwrap_or_default();
                let want = PingPongMessage::Initialize { verifier_share: msh.get_encoded().unwrap_or_default() };
                if sb != msb || c.message != want {
                    self.ctx.fail(Violation::new("C12.refine", "leader_initialized|differs", "leader_initialized differs from the specified state machine (state or Initialize message)"));
                    return;
                }
                let Some(frame) = mon_encode(self.ctx, "PingPongMessage", &c.message) else { return };
                self.ctx.trace.str("L.init").bytes(&sb).bytes(&frame);
                self.sent[ex][0].push(frame);
                self.parties[ex][0].stage = Stage::LeaderWait(sb);
                self.parties[ex][0].mem_state = Some(c.verifier_state);
            }
            (Ok(l), m) => {
                self.ctx.fail(Violation::new("C12.refine", "leader_initialized|ok_err", format!("leader_initialized {} but the model {}", if l.is_ok() { "succeeded" } else { "failed" }, if m.is_ok() { "succeeded" } else { "failed" })));
            }
        }
    }

    /// The verify state the party would pass to `*_continued`, restoring from the store if needed.
    fn current_state(&mut self, ex: usize, who: usize) -> Option<V::VerifyState> {
        if let Some(s) = &self.parties[ex][who].mem_state {
            return Some(s.clone());
        }
        let v = self.vdaf;
        match &self.parties[ex][who].stage {
            Stage::LeaderWait(sb) => {
                let sb = sb.clone();
                let st = mon_decode(self.ctx, "VerifyState", &sb, 256, |b| v.dec_state(who, b), |s| V::enc_state(s), |s| V::state_len_hint(s));
                if st.is_none() {
                    self.ctx.fail(Violation::new("C12.restart", "state|undecodable", "stored leader verify state does not decode"));
                }
                st
            }
            Stage::Cont(cb) => {
                let cb = cb.clone();
                let c = mon_decode(self.ctx, "PingPongContinuation", &cb, 256, |b| v.dec_cont(who, b), |c| V::enc_cont(c), |c| V::cont_len_hint(c))?;
                match guard("PingPongContinuation::evaluate", || c.evaluate(&self.plan.ctx.0, v)) {
                    Ok(Ok(PingPongState::Continued(cont))) => Some(cont.verifier_state),
                    Ok(_) => None,
                    Err(pv) => {
                        self.ctx.fail(pv);
                        None
                    }
                }
            }
            _ => None,
        }
    }

    /// Classify by RESULT, not by intention: compare the harness's own parse of the original and
    /// of the mutated frame.
    fn classify(&self, ex: usize, src: &Src, original: &[u8], bytes: &[u8], genuine_next: Option<&Vec<u8>>) -> FaultClass {
        if Some(&bytes.to_vec()) == genuine_next {
            return FaultClass::Genuine;
        }
        if bytes != original {
            let (Some((t0, f0)), Some((t1, f1))) = (parse_frame(original), parse_frame(bytes)) else {
                return FaultClass::RawFrame;
            };
            if t0 != t1 {
                return FaultClass::Retype;
            }
            if f0.len() != f1.len() || f0.iter().zip(f1.iter()).any(|(a, b)| a.len() != b.len()) {
                return FaultClass::PayloadLen;
            }
            return FaultClass::PayloadCorrupt;
        }
        match src {
            Src::Replay { ex2, .. } if *ex2 as usize % self.setups.len() != ex => FaultClass::Splice,
            _ => FaultClass::ReplaySame,
        }
    }

    fn deliver(&mut self, ex: usize, to: usize, src: &Src, frame: &Option<FrameMut>) {
        let nex = self.setups.len();
        let ex = ex % nex;
        let to = to % 2;
        if matches!(self.parties[ex][to].stage, Stage::Done) {
            self.ctx.counters.inc("driver.done_ignored");
            return;
        }
        if to == 0 && matches!(self.parties[ex][0].stage, Stage::Start) {
            // leader has not started (cannot happen: leader_init runs first)
            return;
        }
        // which bytes
        let inbound_dir = 1 - to; // messages to helper travel in direction 0
        let genuine_next: Option<Vec<u8>> = self.sent[ex][inbound_dir].get(self.parties[ex][to].processed).cloned();
        let original: Vec<u8> = match src {
            Src::Genuine => match &genuine_next {
                Some(b) => b.clone(),
                None => {
                    self.ctx.counters.inc("driver.nothing_pending");
                    return;
                }
            },
            Src::Replay { ex2, dir, idx } => {
                let l = &self.sent[*ex2 as usize % nex][*dir as usize % 2];
                if l.is_empty() {
                    self.ctx.counters.inc("driver.nothing_to_replay");
                    return;
                }
                l[*idx as usize % l.len()].clone()
            }
        };
        let mut bytes = original.clone();
        if let Some(fm) = frame {
            match fm {
                FrameMut::Retype { tag } => {
                    if !bytes.is_empty() {
                        bytes[0] = *tag;
                    }
                }
                FrameMut::SwapFields => {
                    if let Some((t, mut f)) = parse_frame(&bytes) {
                        if f.len() == 2 {
                            f.swap(0, 1);
                            bytes = build_frame(t, &f);
                        }
                    }
                }
                FrameMut::Raw { m } => raw_mut(&mut bytes, m),
                FrameMut::Payload { field, m } => {
                    if let Some((t, mut f)) = parse_frame(&bytes) {
                        let k = *field as usize % f.len();
                        raw_mut(&mut f[k], m);
                        bytes = build_frame(t, &f);
                    }
                }
                FrameMut::Len { field, val } => {
                    if let Some((_, f)) = parse_frame(&bytes) {
                        let k = *field as usize % f.len();
                        let off = 1 + (0..k).map(|i| 4 + f[i].len()).sum::<usize>();
                        bytes[off..off + 4].copy_from_slice(&val.to_be_bytes());
                    }
                }
            }
        }
        let class = self.classify(ex, src, &original, &bytes, genuine_next.as_ref());
        self.ctx.counters.inc(&format!("deliver.{class:?}"));
        if class != FaultClass::Genuine {
            self.ctx.fault(&format!("{class:?}"));
        }
        self.ctx.events += 1;
        self.ctx.trace.str("deliver").u64(ex as u64).u64(to as u64).bytes(&bytes);
        self.ctx.sig.str(&format!("{class:?}{to}"));
        // decode the frame (codec is C07/C08 territory; an undecodable frame is refused here)
        let Some(msg) = mon_decode(self.ctx, "PingPongMessage", &bytes, 0, |b| PingPongMessage::get_decoded(b), |m| m.get_encoded(), |m| m.encoded_len()) else {
            self.ctx.counters.inc("refused.undecodable_frame");
            return;
        };
        if parse_frame(&bytes).is_none() {
            self.ctx.fail(Violation::new("C07.frame", "PingPongMessage|lenient", format!("PingPongMessage decoder accepted a frame the layout (tag 0..2, u32-prefixed fields, no trailing bytes) does not admit: {}", crate::util::hex(&bytes[..bytes.len().min(64)]))));
        }
        let v = self.vdaf;
        let ctxb = self.plan.ctx.0.clone();
        let is_leader = to == 0;
        // library call + model call on the same inputs
        let (lib, model) = if !is_leader && matches!(self.parties[ex][1].stage, Stage::Start) {
            let nonce = self.nonce(ex);
            let su = &self.setups[ex];
            self.ctx.nontrivial = true;
            let lib = guard("helper_initialized", || v.helper_initialized(&self.vk, &ctxb, &self.ap, &nonce, &su.public, &su.inputs[1], &msg));
            let model = m_helper_init(v, &self.vk, &ctxb, &self.ap, &nonce, su, &msg);
            (lib, model)
        } else {
            let Some(st) = self.current_state(ex, to) else {
                self.ctx.counters.inc("driver.no_state");
                return;
            };
            let st2 = st.clone();
            let lib = if is_leader { guard("leader_continued", || v.leader_continued(&ctxb, &self.ap, st, &msg)) } else { guard("helper_continued", || v.helper_continued(&ctxb, &self.ap, st, &msg)) };
            let model = m_continued(v, is_leader, &ctxb, &self.ap, st2, &msg);
            (lib, model)
        };
        let lib = match lib {
            Err(pv) => {
                self.ctx.fail(pv);
                return;
            }
            Ok(l) => l,
        };
        let who = if is_leader { "leader" } else { "helper" };
        match (lib, model) {
            (Err(_), Err(())) => {
                self.ctx.counters.inc("refused.by_library");
                self.ctx.trace.str("refused");
                if class == FaultClass::Genuine {
                    // the genuine next message of an honest exchange must be accepted
                    if !self.parties[ex][0].accepted_nongenuine && !self.parties[ex][1].accepted_nongenuine {
                        self.ctx.fail(Violation::new("C12.honest", format!("genuine|refused|{}", self.plan.vdaf), format!("{who} refused the genuine next message of an honest exchange")));
                    }
                }
            }
            (Ok(_), Err(())) => self.ctx.fail(Violation::new("C12.refine", format!("{who}|lib_ok_model_err|{class:?}"), format!("{who} accepted a {class:?} message that the specified state machine refuses"))),
            (Err(e), Ok(_)) => self.ctx.fail(Violation::new("C12.refine", format!("{who}|lib_err_model_ok|{class:?}"), format!("{who} refused a {class:?} message that the specified state machine accepts: {e}"))),
            (Ok(cont), Ok(mout)) => {
                // O3: faults from the property's own list must be refused
                if self.refusals_expected && matches!(class, FaultClass::ReplaySame | FaultClass::Retype | FaultClass::PayloadLen) {
                    self.ctx.fail(Violation::new("C12.refusal", format!("{who}|accepted|{class:?}|{}", self.plan.vdaf), format!("{who} accepted a {class:?} message (wrong kind / wrong round / duplicated / wrong length) — both the library and the model")));
                    return;
                }
                if class != FaultClass::Genuine {
                    self.parties[ex][to].accepted_nongenuine = true;
                    self.ctx.probe("nongenuine_accepted");
                }
                self.accept(ex, to, cont, mout);
            }
        }
    }

    fn accept(&mut self, ex: usize, to: usize, cont: prio::topology::ping_pong::PingPongContinuation<VK, 16, V>, mout: MOut<V, VK>) {
        let v = self.vdaf;
        let ctxb = self.plan.ctx.0.clone();
        let who = if to == 0 { "leader" } else { "helper" };
        // continuation encoding vs model (prev state || verifier message)
        let enc = guard("PingPongContinuation::encode", || (V::enc_cont(&cont), V::cont_len_hint(&cont)));
        let (enc, hint) = match enc {
            Ok(x) => x,
            Err(pv) => {
                self.ctx.fail(pv);
                return;
            }
        };
        let cont_bytes = match (&mout, enc) {
            (MOut::Finished(_), Err(_)) => None,
            (MOut::Finished(_), Ok(_)) => {
                self.ctx.fail(Violation::new("C12.restart", "cont|output_share_encodes", "an output-share continuation must refuse to encode"));
                return;
            }
            (MOut::Transition { prev, vm }, Ok(b)) => {
                let mut want = V::enc_state(prev).unwrap_or_default();
                want.extend(vm.get_encoded().unwrap_or_default());
                if b != want {
                    self.ctx.fail(Violation::new("C12.refine", format!("{who}|continuation_bytes"), format!("{who}: continuation encodes to different bytes than (state, verifier message) of the specified state machine")));
                    return;
                }
                if hint != Some(b.len()) {
                    self.ctx.fail(Violation::new("C12.restart", "cont|len", format!("continuation encoded_len() = {hint:?}, actual {}", b.len())));
                }
                Some(b)
            }
            (MOut::Transition { .. }, Err(e)) => {
                self.ctx.fail(Violation::new("C12.restart", "cont|encode_err", format!("transition continuation fails to encode: {e}")));
                return;
            }
        };
        // evaluate vs model
        let ev = match guard("PingPongContinuation::evaluate", || cont.evaluate(&ctxb, v)) {
            Ok(e) => e,
            Err(pv) => {
                self.ctx.fail(pv);
                return;
            }
        };
        let mev = m_eval(v, &ctxb, &mout);
        let p = &mut self.parties[ex][to];
        match (ev, mev) {
            (Err(_), Err(())) => {
                // both refuse at evaluation: durable state untouched
                self.ctx.counters.inc("refused.at_evaluate");
            }
            (Ok(PingPongState::Continued(c)), Ok(MState::Continued { state, msg })) => {
                let sb = V::enc_state(&c.verifier_state).unwrap_or_default();
                let mb = c.message.get_encoded().unwrap_or_default();
                if sb != state || mb != msg {
                    self.ctx.fail(Violation::new("C12.refine", format!("{who}|continued_differs"), format!("{who}: evaluate() gave a different state or outbound message than the specified state machine")));
                    return;
                }
                p.stage = Stage::Cont(cont_bytes.unwrap_or_default());
                p.mem_state = Some(c.verifier_state);
                p.processed += 1;
                p.last_eval = Some((Some(sb.clone()), Some(mb.clone()), None));
                self.ctx.trace.str("continued").bytes(&sb).bytes(&mb);
                self.sent[ex][to].push(mb);
            }
            (Ok(PingPongState::FinishedWithOutbound { output_share, message }), Ok(MState::FinishedWithOutbound { out, msg })) => {
                let ob = output_share.get_encoded().unwrap_or_default();
                let mb = message.get_encoded().unwrap_or_default();
                if ob != out || mb != msg {
                    self.ctx.fail(Violation::new("C12.refine", format!("{who}|finished_outbound_differs"), format!("{who}: evaluate() gave a different output share or Finish message than the specified state machine")));
                    return;
                }
                p.stage = Stage::Cont(cont_bytes.unwrap_or_default());
                p.mem_state = None;
                p.processed += 1;
                p.out = Some(ob.clone());
                p.last_eval = Some((None, Some(mb.clone()), Some(ob.clone())));
                self.ctx.trace.str("finished_outbound").bytes(&ob).bytes(&mb);
                self.sent[ex][to].push(mb);
            }
            (Ok(PingPongState::Finished { output_share }), Ok(MState::Finished { out })) => {
                let ob = output_share.get_encoded().unwrap_or_default();
                if ob != out {
                    self.ctx.fail(Violation::new("C12.refine", format!("{who}|finished_differs"), format!("{who}: output share differs from the specified state machine")));
                    return;
                }
                p.stage = Stage::Done;
                p.mem_state = None;
                p.processed += 1;
                p.out = Some(ob.clone());
                self.ctx.trace.str("finished").bytes(&ob);
            }
            (l, m) => {
                let ls = match l {
                    Ok(PingPongState::Continued(_)) => "Continued",
                    Ok(PingPongState::FinishedWithOutbound { .. }) => "FinishedWithOutbound",
                    Ok(PingPongState::Finished { .. }) => "Finished",
                    Err(_) => "Err",
                };
                let ms = match m {
                    Ok(MState::Continued { .. }) => "Continued",
                    Ok(MState::FinishedWithOutbound { .. }) => "FinishedWithOutbound",
                    Ok(MState::Finished { .. }) => "Finished",
                    Err(_) => "Err",
                };
                self.ctx.fail(Violation::new("C12.refine", format!("{who}|evaluate_kind|{ls}|{ms}"), format!("{who}: evaluate() -> {ls}, specified state machine -> {ms}")));
            }
        }
    }

    /// Crash + restart: everything in memory is lost; reload the durable bytes and evaluate.
    fn restart(&mut self, ex: usize, party: usize, evals: u8) {
        let ex = ex % self.setups.len();
        let party = party % 2;
        self.ctx.fault("crash_restart");
        self.parties[ex][party].mem_state = None;
        let v = self.vdaf;
        let ctxb = self.plan.ctx.0.clone();
        let (cb, last) = match (&self.parties[ex][party].stage, &self.parties[ex][party].last_eval) {
            (Stage::Cont(cb), Some(l)) => (cb.clone(), l.clone()),
            (Stage::LeaderWait(_), _) => {
                let _ = self.current_state(ex, party);
                self.ctx.probe("restart_leader_before_first_reply");
                return;
            }
            _ => return,
        };
        self.ctx.probe("restart_with_continuation");
        let Some(c) = mon_decode(self.ctx, "PingPongContinuation", &cb, 256, |b| v.dec_cont(party, b), |c| V::enc_cont(c), |c| V::cont_len_hint(c)) else {
            self.ctx.fail(Violation::new("C12.restart", "cont|undecodable", "a stored continuation does not decode"));
            return;
        };
        let n = evals.clamp(1, 4);
        if n >= 2 {
            self.ctx.probe("continuation_reevaluated_ge_2");
        }
        for k in 0..n {
            let c2 = if k % 2 == 1 { c.clone() } else { c.clone() };
            match guard("PingPongContinuation::evaluate", || c2.evaluate(&ctxb, v)) {
                Err(pv) => {
                    self.ctx.fail(pv);
                    return;
                }
                Ok(Err(e)) => {
                    self.ctx.fail(Violation::new("C12.restart", "cont|reevaluate_err", format!("re-evaluating a stored continuation failed: {e}")));
                    return;
                }
                Ok(Ok(st)) => {
                    let got = match st {
                        PingPongState::Continued(c) => (Some(V::enc_state(&c.verifier_state).unwrap_or_default()), Some(c.message.get_encoded().unwrap_or_default()), None),
                        PingPongState::FinishedWithOutbound { output_share, message } => (None, Some(message.get_encoded().unwrap_or_default()), Some(output_share.get_encoded().unwrap_or_default())),
                        PingPongState::Finished { output_share } => (None, None, Some(output_share.get_encoded().unwrap_or_default())),
                    };
                    if got != last {
                        self.ctx.fail(Violation::new("C12.restart", "cont|reevaluate_differs", format!("evaluation #{k} of a reloaded continuation differs from the original (state / outbound message / output share)")));
                        return;
                    }
                }
            }
        }
    }

    /// At-rest corruption: the bytes are mutated and decoded through the monitors; the party then
    /// keeps its in-memory state (the corrupted bytes are discarded), so no protocol oracle is
    /// affected — this exists for the wire / decode monitors only.
    fn corrupt_store(&mut self, ex: usize, party: usize, m: &Mutation) {
        let ex = ex % self.setups.len();
        let party = party % 2;
        let v = self.vdaf;
        self.ctx.fault("store_corrupt");
        match &self.parties[ex][party].stage {
            Stage::LeaderWait(sb) => {
                let mut b = sb.clone();
                raw_mut(&mut b, m);
                let _ = mon_decode(self.ctx, "VerifyState", &b, 256, |x| v.dec_state(party, x), |s| V::enc_state(s), |s| V::state_len_hint(s));
            }
            Stage::Cont(cb) => {
                let mut b = cb.clone();
                raw_mut(&mut b, m);
                if let Some(c) = mon_decode(self.ctx, "PingPongContinuation", &b, 256, |x| v.dec_cont(party, x), |c| V::enc_cont(c), |c| V::cont_len_hint(c)) {
                    // a corrupted continuation that decodes must still evaluate without panicking
                    if let Err(pv) = guard("PingPongContinuation::evaluate(corrupted store)", || c.evaluate(&self.plan.ctx.0, v).map(|_| ())) {
                        self.ctx.fail(pv);
                    }
                }
            }
            _ => {}
        }
    }

    pub fn run(mut self) {
        for ex in 0..self.setups.len() {
            self.leader_init(ex);
        }
        if self.ctx.failed() {
            return;
        }
        let steps = self.plan.steps.clone();
        for s in &steps {
            match s {
                Step::Deliver { ex, to, src, frame } => self.deliver(*ex as usize, *to as usize, src, frame),
                Step::Restart { ex, party, evals } => self.restart(*ex as usize, *party as usize, *evals),
                Step::CorruptStore { ex, party, m } => self.corrupt_store(*ex as usize, *party as usize, m),
            }
            if self.ctx.failed() {
                return;
            }
        }
        // O5 bounded liveness: faults have stopped; deliver the genuine pending messages in order
        for ex in 0..self.setups.len() {
            let clean = !self.parties[ex][0].accepted_nongenuine && !self.parties[ex][1].accepted_nongenuine;
            let mut deliveries = 0;
            loop {
                let mut progressed = false;
                for to in [1usize, 0] {
                    if matches!(self.parties[ex][to].stage, Stage::Done) {
                        continue;
                    }
                    let before = self.parties[ex][to].processed;
                    let pending = self.sent[ex][1 - to].len() > before;
                    if pending {
                        self.deliver(ex, to, &Src::Genuine, &None);
                        deliveries += 1;
                        if self.ctx.failed() {
                            return;
                        }
                        if self.parties[ex][to].processed > before {
                            progressed = true;
                        }
                    }
                }
                if !progressed || deliveries > 2 * self.rounds + 4 {
                    break;
                }
            }
            let done = |p: &Party<V::VerifyState>| p.out.is_some();
            if clean {
                if !done(&self.parties[ex][0]) || !done(&self.parties[ex][1]) {
                    self.ctx.fail(Violation::new("C12.liveness", format!("stuck|{}", self.plan.vdaf), format!("exchange {ex}: after faults stopped, in-order delivery of the genuine messages did not complete within {} deliveries", 2 * self.rounds + 4)));
                    return;
                }
                if deliveries > self.rounds + 1 {
                    self.ctx.fail(Violation::new("C12.liveness", "slow", format!("exchange {ex}: needed {deliveries} deliveries after the last fault; bound R+1 = {}", self.rounds + 1)));
                    return;
                }
                for who in 0..2 {
                    if self.parties[ex][who].out.as_ref() != Some(&self.honest[ex][who]) {
                        self.ctx.fail(Violation::new("C12.output", format!("output|{}", self.plan.vdaf), format!("exchange {ex}: {} finished with an output share different from the direct broadcast execution", if who == 0 { "leader" } else { "helper" })));
                        return;
                    }
                }
                // O1: message kinds are Initialize, (R-1) x Continue, Finish
                let mut kinds = Vec::new();
                let (l, h) = (&self.sent[ex][0], &self.sent[ex][1]);
                for i in 0..l.len().max(h.len()) {
                    if let Some(b) = l.get(i) {
                        kinds.push(b[0]);
                    }
                    if let Some(b) = h.get(i) {
                        kinds.push(b[0]);
                    }
                }
                let mut want = vec![0u8];
                want.extend(std::iter::repeat(1u8).take(self.rounds - 1));
                want.push(2);
                if kinds != want {
                    self.ctx.fail(Violation::new("C12.kinds", format!("kinds|{}", self.plan.vdaf), format!("exchange {ex}: message kinds {kinds:?}, specified {want:?}")));
                    return;
                }
                self.ctx.counters.inc("c12.clean_exchanges_completed");
            } else {
                // listed-faults-only runs: nothing non-genuine may have been accepted at all
                if self.plan.faults == "listed" && self.refusals_expected {
                    self.ctx.fail(Violation::new("C12.refusal", "listed|accepted", format!("exchange {ex}: a message from the refusal list was accepted")));
                    return;
                }
                self.ctx.counters.inc("c12.diverged_exchanges");
            }
            for who in 0..2 {
                if let Some(o) = &self.parties[ex][who].out {
                    self.ctx.trace.bytes(o);
                }
            }
        }
        let _ = Decode::get_decoded as fn(&[u8]) -> Result<PingPongMessage, prio::codec::CodecError>;
    }
}
