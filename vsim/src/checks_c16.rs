//! C16: caller-misuse faults. Constructors at 0 / 1 / boundary / maximal arguments, measurements
//! outside the configured range or of the wrong length, aggregator identifiers out of range, the
//! other role's share, the wrong number of shares, and objects produced by a differently
//! parameterised instance of the same Rust type. Oracle: `Err`, or an instance that works (a
//! one-report run over world A succeeds) — never a panic, overflow, abort or hang.

use crate::checks_a::{base_plan, exec_plan_a};
use crate::core::*;
use crate::inst::{dispatch, Adapter, BuildErr, Inst, SimVdaf, Visitor};
use crate::model;
use crate::rng::Rng;
use crate::util::{Counters, Hx, N};
use prio::codec::ParameterizedDecode;
use prio::dp::{PureDpBudget, Rational, ZCdpBudget};
use prio::vdaf::poplar1::Poplar1;
use prio::vdaf::prio2::Prio2;
use prio::vdaf::prio3::Prio3;
use prio::vdaf::{Client, VerifyTransition};
use serde::{Deserialize, Serialize};
use serde_json::{json, Value};

#[derive(Clone, Debug, Serialize, Deserialize, PartialEq)]
#[serde(tag = "k")]
pub enum Plan16 {
    /// a public constructor with arbitrary arguments (u64 stands for usize)
    Ctor { class: String, n: u8, proofs: u8, max: N, len: u64, chunk: u64, weight: u64, seed: u64 },
    /// an out-of-domain measurement handed to `shard`
    Meas { inst: Inst, meas: Vec<N>, ctx: Hx, nonce: Hx, rand: Hx, what: String },
    /// aggregator-side misuse on an otherwise honest report
    Agg { inst: Inst, other: Option<Inst>, meas: Vec<N>, ctx: Hx, nonce: Hx, rand: Hx, vk: Hx, what: String, id: u64 },
    /// DP parameter constructors
    Dp { n: N, d: N, what: String },
    /// aggregator-side noise (`AggregatorWithNoise::add_noise_to_agg_share`) with extreme instance
    /// and privacy parameters; the OS randomness is replaced by a tape through the RNG seam
    Noise { class: String, n: u8, max: N, len: u32, chunk: u32, eps_n: N, eps_d: N, tape: Hx, num_measurements: u64 },
    /// the proof system's own fallible operations (Flp::{prove, query, decide, valid}, Type::truncate) with an
    /// argument that is shorter / longer than declared, or empty (delta = -128)
    FlpLen { inst: Inst, meas: Vec<N>, which: String, arg: u8, delta: i8 },
}

pub struct Check16;
pub fn checks() -> Vec<Box<dyn Check>> {
    vec![Box::new(Check16)]
}
const ACCEPT: &[&str] = &["C16.", "panic"];

const USIZES: [u64; 16] = [0, 1, 2, 3, 7, 8, 255, 256, 65_535, 65_536, u32::MAX as u64 - 1, u32::MAX as u64, u32::MAX as u64 + 1, (1 << 63) - 1, u64::MAX - 1, u64::MAX];

fn gen(seed: u64) -> Plan16 {
    let mut rng = Rng::new(seed);
    let rng = &mut rng;
    if rng.chance(1, 12) {
        let class = *rng.pick(&["sumvec", "sumvec64", "hist", "hist64", "l1", "l164", "sumvec-mt", "hist-mt"]);
        let f64c = class.ends_with("64");
        let max = if f64c {
            *rng.pick(&[1u128, 2, 255, 1 << 31, (1 << 62) - 1, 1 << 62, (1u128 << 63) - 1, 1 << 63, model::P64 - 1])
        } else {
            *rng.pick(&[1u128, 2, 255, 1 << 64, (1 << 126) - 1, 1 << 126, (1u128 << 127) - 1, 1 << 127, model::P128 - 1])
        };
        let len = 1 + rng.below(6) as u32;
        let ext: [u128; 9] = [1, 1, 2, 3, 1000, u32::MAX as u128, u64::MAX as u128, (1u128 << 100) + 7, u128::MAX];
        return Plan16::Noise { class: class.to_string(), n: 2 + rng.below(2) as u8, max: N(max), len, chunk: 1 + rng.below(len as u64 + 2) as u32, eps_n: N(*rng.pick(&ext)), eps_d: N(*rng.pick(&ext)), tape: Hx(rng.bytes(64)), num_measurements: *rng.pick(&[0u64, 1, 2, 1000, u64::MAX]) };
    }
    if rng.chance(1, 12) {
        let mut inst = crate::inst::gen_prio3_inst(rng, true, false);
        inst.n = inst.n.min(4);
        let meas = model::gen_meas(&inst, rng);
        return Plan16::FlpLen { inst, meas, which: rng.pick(&["prove", "query", "query", "decide", "valid", "truncate"]).to_string(), arg: rng.below(4) as u8, delta: *rng.pick(&[-1i8, 1, 2, 9, -2, -3, -5, i8::MIN, i8::MIN]) };
    }
    match rng.below(10) {
        0..=3 => {
            let class = *rng.pick(&["count", "sum", "sum128", "avg", "sumvec", "sumvec-mt", "hist", "hist-mt", "multihot", "multihot-mt", "l1", "prio2", "poplar1", "generic"]);
            let extreme = |rng: &mut Rng| -> u64 {
                if rng.chance(1, 2) {
                    *rng.pick(&USIZES)
                } else {
                    1 + rng.below(12)
                }
            };
            let max = match rng.below(8) {
                0 => 0,
                1 => 1,
                2 => model::P64 - 1,
                3 => model::P64,
                4 => model::P128 - 1,
                5 => model::P128,
                6 => u128::MAX,
                _ => 1 + rng.below(1000) as u128,
            };
            Plan16::Ctor { class: class.to_string(), n: *rng.pick(&[0u8, 1, 2, 2, 3, 254, 255]), proofs: *rng.pick(&[0u8, 1, 1, 2, 255]), max: N(max), len: extreme(rng), chunk: extreme(rng), weight: extreme(rng), seed: rng.u64() }
        }
        4..=6 => {
            let inst = if rng.chance(1, 5) {
                crate::inst_poplar::gen_poplar_inst(rng, false)
            } else if rng.chance(1, 5) {
                crate::inst_prio2::gen_prio2_inst(rng, true)
            } else {
                let mut i = crate::inst::gen_prio3_inst(rng, true, false);
                i.n = i.n.min(4);
                i
            };
            let mut inst = inst;
            let mut what = *rng.pick(&["over", "over", "short", "long", "empty", "max", "long_ctx", "norm_wrap"]);
            if what == "norm_wrap" {
                // L1-bound sum with a bound so large that an out-of-range L1 norm wraps around the
                // field modulus: every element is within the bound, the norm is p + small
                let max = *rng.pick(&[1u128 << 127, model::P128 - 1, (model::P128 - 1) / 2 + 1]);
                let len = 2 + rng.below(3) as u32;
                let bits = crate::model::bits_of(max) as u32;
                inst = Inst { class: "l1".into(), n: 2 + rng.below(2) as u8, proofs: 1, max: N(max), len, chunk: 1 + rng.below((bits * (len + 1)) as u64) as u32, weight: 1, mt: false, named: true, xof: String::new() };
            }
            let mut meas = model::gen_meas(&inst, rng);
            if what == "norm_wrap" {
                let max = inst.max.0;
                let small = rng.below(1000) as u128;
                meas = vec![N(0); inst.len as usize];
                meas[0] = N(max);
                let rest = model::P128 - max + small;
                if rest <= max {
                    meas[1] = N(rest);
                } else {
                    what = "over";
                    meas[1] = N(max);
                    if inst.len > 2 {
                        meas[2] = N((model::P128.saturating_sub(max).saturating_sub(max) + small).min(max));
                    }
                }
            }
            let p = model::modulus(&inst);
            match what {
                "over" => {
                    let i = rng.usize_below(meas.len().max(1));
                    let bound = match inst.class.as_str() {
                        "hist" => inst.len as u128,
                        "count" | "multihot" | "prio2" | "poplar1" => 1,
                        _ => inst.max.0,
                    };
                    if !meas.is_empty() {
                        meas[i] = N(match rng.below(4) {
                            0 => bound + if inst.class == "hist" { 0 } else { 1 },
                            1 => p,
                            2 => u64::MAX as u128,
                            _ => bound + 1 + rng.below(1000) as u128,
                        });
                    }
                    if inst.class == "multihot" {
                        // weight above the bound
                        for x in meas.iter_mut() {
                            *x = N(1);
                        }
                    }
                }
                "short" => {
                    meas.pop();
                }
                "long" => meas.push(N(0)),
                "long_ctx" | "norm_wrap" => {}
                "empty" => meas.clear(),
                _ => {
                    for x in meas.iter_mut() {
                        *x = N(u64::MAX as u128);
                    }
                }
            }
            // the domain-separation tag is 8 bytes + ctx and is length-prefixed with a u16
            let cl = if what == "long_ctx" { *rng.pick(&[65_526usize, 65_527, 65_528, 65_535, 65_536, 70_000]) } else { rng.usize_below(8) };
            Plan16::Meas { ctx: Hx(vec![0x5a; cl]), nonce: Hx(rng.bytes(16)), rand: Hx(rng.bytes(model::rand_len(&inst))), meas, what: what.to_string(), inst }
        }
        7 | 8 => {
            let mut inst = if rng.chance(1, 5) {
                crate::inst_poplar::gen_poplar_inst(rng, false)
            } else if rng.chance(1, 6) {
                crate::inst_prio2::gen_prio2_inst(rng, true)
            } else {
                crate::inst::gen_prio3_inst(rng, true, false)
            };
            if inst.n > 4 {
                inst.n = 2 + rng.below(3) as u8;
            }
            let what = *rng.pick(&["agg_id", "wrong_role", "share_count", "cross_instance", "cross_instance", "late", "late"]);
            let other = if what == "cross_instance" && inst.is_prio3() && rng.chance(1, 3) {
                // another CLASS whose share objects have the same Rust type (same field and seed size)
                let fam: &[&str] = if matches!(inst.class.as_str(), "count" | "sum" | "sumvec64") { &["count", "sum", "sumvec64"] } else { &["avg", "sumvec", "hist", "multihot", "l1"] };
                let mut o = crate::inst::gen_prio3_inst(rng, true, false);
                let mut g = 0;
                while (!fam.contains(&o.class.as_str()) || o.class == inst.class) && g < 200 {
                    o = crate::inst::gen_prio3_inst(rng, true, false);
                    g += 1;
                }
                o.n = inst.n;
                Some(o)
            } else if what == "cross_instance" {
                // same Rust type, other parameters
                let mut o = inst.clone();
                match rng.below(5) {
                    0 => o.len = (o.len + 1 + rng.below(9) as u32).max(1),
                    1 => o.len = (o.len / 2).max(1),
                    2 => o.n = if o.class == "poplar1" || o.class == "prio2" { 2 } else { 2 + ((o.n as u32 + rng.below(3) as u32) % 4) as u8 },
                    3 => o.proofs = if o.class == "sumvec64" { 2 + (o.proofs % 3) } else if o.proofs == 1 { 2 } else { 1 },
                    _ => o.chunk = 1 + (o.chunk % 7),
                }
                if o.class == "multihot" {
                    o.weight = o.weight.min(o.len + 2).max(1);
                }
                if o.proofs > 1 {
                    o.named = false;
                }
                if o == inst {
                    o.len += 1;
                }
                Some(o)
            } else {
                None
            };
            let cl = rng.usize_below(8);
            Plan16::Agg { ctx: Hx(rng.bytes(cl)), nonce: Hx(rng.bytes(16)), rand: Hx(rng.bytes(model::rand_len(&inst))), vk: Hx(rng.bytes(32)), meas: model::gen_meas(&inst, rng), what: what.to_string(), id: *rng.pick(&[2u64, 3, 254, 255, 256, u64::MAX]), other, inst }
        }
        _ => Plan16::Dp { n: N(*rng.pick(&[0u128, 1, 2, u64::MAX as u128, u128::MAX])), d: N(*rng.pick(&[0u128, 1, 3, u64::MAX as u128, u128::MAX])), what: rng.pick(&["rational", "zcdp", "pure", "gauss", "laplace"]).to_string() },
    }
}

/// Rough size of one report's state for an instance, to respect the memory budget (256 MiB).
fn too_big(class: &str, n: u8, proofs: u8, max: u128, len: u64, chunk: u64, weight: u64) -> bool {
    let bits = (128 - max.leading_zeros()) as u64;
    let il = match class {
        "sumvec" | "sumvec-mt" | "l1" => bits.saturating_mul(len.saturating_add(1)),
        "hist" | "hist-mt" => len,
        "multihot" | "multihot-mt" => len.saturating_add(64),
        "prio2" | "poplar1" => len,
        _ => 128,
    };
    let _ = weight;
    let per = il.saturating_add(chunk.saturating_mul(4)).saturating_mul(16).saturating_mul(proofs.max(1) as u64).saturating_mul(n.max(1) as u64);
    per > (1 << 22) || il > 4096 || chunk > 100_000
}

fn run_one_report(inst: &Inst, seed: u64, counters: &mut Counters) -> Result<Option<Violation>, String> {
    let mut rng = Rng::new(seed);
    let mut p = base_plan(inst.clone(), "honest", &mut rng, 1);
    if inst.class == "poplar1" {
        let inputs: Vec<Vec<N>> = p.reports.iter().map(|r| r.meas.clone()).collect();
        let pl = 1 + rng.usize_below(inst.len as usize);
        p.aps = vec![crate::inst_poplar::gen_prefixes(&mut rng, &inputs, pl, 2, None)];
    }
    let out = exec_plan_a("C16", &["C01.", "C03.", "C19.", "panic", "C13."], &p, counters)?;
    Ok(out.violation)
}

struct AggVis<'a, 'c, 'cc> {
    ctx: &'c mut Ctx<'cc>,
    plan: &'a Plan16,
}

/// bytes of (public, inputs) of an honest report of `inst`
struct ShardVis<'a> {
    c: &'a [u8],
    meas: &'a [N],
    nonce: [u8; 16],
    rand: &'a [u8],
}
impl<'a> Visitor for ShardVis<'a> {
    type Out = Result<(Vec<u8>, Vec<Vec<u8>>), String>;
    fn visit<V, A, const VK: usize>(self, vdaf: &V, ad: &A) -> Self::Out
    where
        V: SimVdaf<VK>,
        A: Adapter<V>,
    {
        match ad.shard(vdaf, self.c, self.meas, &self.nonce, self.rand, false) {
            Ok(x) => Ok(x),
            Err(crate::inst::ShardErr::Refused(e)) => Err(e),
            Err(crate::inst::ShardErr::Panic(v)) => Err(v.detail),
        }
    }
}

/// Decode a report's shares with the instance that produced them and hand them out type-erased.
struct ObjVis<'a> {
    pb: &'a [u8],
    ib: &'a [Vec<u8>],
}
impl<'a> Visitor for ObjVis<'a> {
    type Out = Result<(Box<dyn std::any::Any>, Vec<Box<dyn std::any::Any>>), String>;
    fn visit<V, A, const VK: usize>(self, vdaf: &V, _ad: &A) -> Self::Out
    where
        V: SimVdaf<VK>,
        A: Adapter<V>,
    {
        let public = V::PublicShare::get_decoded_with_param(vdaf, self.pb).map_err(|e| e.to_string())?;
        let mut v: Vec<Box<dyn std::any::Any>> = Vec::new();
        for (j, b) in self.ib.iter().enumerate() {
            v.push(Box::new(V::InputShare::get_decoded_with_param(&(vdaf, j), b).map_err(|e| e.to_string())?));
        }
        Ok((Box::new(public), v))
    }
}

impl<'a, 'c, 'cc> Visitor for AggVis<'a, 'c, 'cc> {
    type Out = Result<(), String>;
    fn visit<V, A, const VK: usize>(self, vdaf: &V, ad: &A) -> Self::Out
    where
        V: SimVdaf<VK>,
        A: Adapter<V>,
    {
        let Plan16::Agg { inst, other, meas, ctx: c, nonce, rand, vk, what, id } = self.plan else { return Ok(()) };
        let ctx = self.ctx;
        let mut n16 = [0u8; 16];
        n16.copy_from_slice(&nonce.0);
        let mut key = [0u8; VK];
        key.copy_from_slice(&vk.0[..VK]);
        let n = vdaf.num_aggregators();
        let apspec: Vec<String> = if inst.class == "poplar1" { vec![crate::inst_poplar::bits_to_string(&meas[..1.max(meas.len() / 2)])] } else { vec![] };
        let ap = ad.agg_param(&apspec)?;
        let (pb, ib) = match ad.shard(vdaf, &c.0, meas, &n16, &rand.0, false) {
            Ok(x) => x,
            Err(e) => {
                // generated instances and measurements are in the domain: "valid arguments are accepted and work"
                let why = match e {
                    crate::inst::ShardErr::Refused(e) => e,
                    crate::inst::ShardErr::Panic(v) => v.detail,
                };
                ctx.fail(Violation::new("C16.valid_refused", format!("shard|{}", inst.class), format!("shard refused an in-domain measurement of {:?}: {why}", inst)));
                return Ok(());
            }
        };
        let Some(public) = crate::wire::honest_decode(ctx, "PublicShare", V::PublicShare::get_decoded_with_param(vdaf, &pb)) else { return Ok(()) };
        let Some(shares) = crate::wire::honest_decode(ctx, "InputShare", (0..n).map(|j| V::InputShare::get_decoded_with_param(&(vdaf, j), &ib[j])).collect::<Result<Vec<V::InputShare>, _>>()) else { return Ok(()) };
        ctx.fault(&format!("caller_misuse.{what}"));
        ctx.events += 1;
        match what.as_str() {
            "agg_id" => {
                let bad = (*id).max(n as u64) as usize;
                match guard("verify_init(agg id out of range)", || vdaf.verify_init(&key, &c.0, bad, &ap, &n16, &public, &shares[0])) {
                    Err(v) => ctx.fail(v),
                    Ok(Ok(_)) => ctx.fail(Violation::new("C16.accepts", format!("agg_id|{}", inst.class), format!("verify_init accepted aggregator id {bad} of {n}"))),
                    Ok(Err(_)) => ctx.counters.inc("c16.refused"),
                }
                // decoding under an out-of-range id
                match guard("InputShare::decode(agg id out of range)", || V::InputShare::get_decoded_with_param(&(vdaf, bad), &ib[0])) {
                    Err(v) => ctx.fail(v),
                    Ok(_) => ctx.counters.inc("c16.decode_with_bad_id_done"),
                }
                match guard("VerifyState::decode(agg id out of range)", || vdaf.dec_state(bad, &ib[0])) {
                    Err(v) => ctx.fail(v),
                    Ok(_) => ctx.counters.inc("c16.decode_with_bad_id_done"),
                }
            }
            "wrong_role" => {
                // the leader's share object processed under a helper identifier and vice versa
                for (obj, as_id) in [(0usize, 1usize), (1, 0), (n - 1, 0)] {
                    if obj == as_id || (obj != 0 && as_id != 0) {
                        continue;
                    }
                    match guard("verify_init(share of another role)", || vdaf.verify_init(&key, &c.0, as_id, &ap, &n16, &public, &shares[obj])) {
                        Err(v) => ctx.fail(v),
                        Ok(Err(_)) => ctx.counters.inc("c16.refused"),
                        Ok(Ok(_)) => {
                            // Prio3 share objects carry their role (Leader / Helper variants): a share of
                            // the other role must be refused. Poplar1 / Prio2 shares of both roles have
                            // the same shape; processing one under the other id is indistinguishable from
                            // a corrupted share and is caught by verification (C04 / C19), not here.
                            if inst.is_prio3() {
                                ctx.fail(Violation::new("C16.accepts", format!("wrong_role|{}", inst.class), format!("verify_init accepted aggregator {obj}'s share object under aggregator id {as_id}")));
                            } else {
                                ctx.counters.inc("c16.wrong_role_same_shape_processed");
                            }
                        }
                    }
                }
            }
            "share_count" => {
                let mut vs = Vec::new();
                for j in 0..n {
                    match guard("verify_init", || vdaf.verify_init(&key, &c.0, j, &ap, &n16, &public, &shares[j])) {
                        Ok(Ok((_, sh))) => vs.push(sh),
                        Ok(Err(e)) => {
                            ctx.fail(Violation::new("C16.valid_refused", format!("verify_init|{}", inst.class), format!("verify_init refused aggregator {j}'s honest share of {:?}: {e}", inst)));
                            return Ok(());
                        }
                        Err(v) => {
                            ctx.fail(v);
                            return Ok(());
                        }
                    }
                }
                let variants: Vec<Vec<V::VerifierShare>> = vec![
                    vec![],
                    vs[..n - 1].to_vec(),
                    vs.iter().cloned().chain(std::iter::once(vs[0].clone())).collect(),
                    // far too many: counters narrower than the share count must not wrap or overflow
                    vs.iter().cloned().cycle().take(255).collect(),
                    vs.iter().cloned().cycle().take(256 + n).collect(),
                    vs.iter().cloned().cycle().take(513).collect(),
                ];
                for v in variants {
                    let k = v.len();
                    if k == n {
                        continue;
                    }
                    match guard("verifier_shares_to_message(wrong count)", || vdaf.verifier_shares_to_message(&c.0, &ap, v)) {
                        Err(v) => ctx.fail(v),
                        Ok(Ok(_)) => ctx.fail(Violation::new("C16.accepts", format!("share_count|{}", inst.class), format!("verifier_shares_to_message accepted {k} shares for {n} aggregators"))),
                        Ok(Err(_)) => ctx.counters.inc("c16.refused"),
                    }
                }
            }
            "late" => {
                // misuse AFTER verify_init: messages of another report / an earlier round handed to
                // verify_next, mixed-round verifier shares, wrong numbers of aggregate shares and
                // extreme measurement counts handed to unshard, output shares aggregated under a
                // parameter with another number of candidates
                let mut n2 = n16;
                for b in n2.iter_mut() {
                    *b ^= 0xff;
                }
                let meas2 = {
                    let mut r = Rng::new(*id ^ 0x1a7e);
                    let mut m = model::gen_meas(inst, &mut r);
                    if inst.class == "poplar1" {
                        // keep the second input on the queried prefix so that both reports are accepted
                        let k = 1.max(meas.len() / 2);
                        m[..k].clone_from_slice(&meas[..k]);
                    }
                    m
                };
                let second = match ad.shard(vdaf, &c.0, &meas2, &n2, &rand.0, false) {
                    Ok((pb2, ib2)) => {
                        let p2 = V::PublicShare::get_decoded_with_param(vdaf, &pb2).map_err(|e| e.to_string())?;
                        let s2: Vec<V::InputShare> = (0..n).map(|j| V::InputShare::get_decoded_with_param(&(vdaf, j), &ib2[j])).collect::<Result<_, _>>().map_err(|e| e.to_string())?;
                        Some((p2, s2))
                    }
                    Err(_) => None,
                };
                macro_rules! lib {
                    ($label:expr, $e:expr) => {
                        match guard($label, || $e) {
                            Ok(r) => r,
                            Err(v) => {
                                ctx.fail(v);
                                return Ok(());
                            }
                        }
                    };
                }
                // round 0 of both reports
                let mut states: Vec<V::VerifyState> = Vec::new();
                let mut vshares: Vec<V::VerifierShare> = Vec::new();
                for j in 0..n {
                    let (st, sh) = match lib!("verify_init", vdaf.verify_init(&key, &c.0, j, &ap, &n16, &public, &shares[j])) {
                        Ok(x) => x,
                        Err(e) => {
                            ctx.fail(Violation::new("C16.valid_refused", format!("verify_init|{}", inst.class), format!("verify_init refused aggregator {j}'s honest share of {:?}: {e}", inst)));
                            return Ok(());
                        }
                    };
                    states.push(st);
                    vshares.push(sh);
                }
                let mut other_msg: Option<V::VerifierMessage> = None;
                if let Some((p2, s2)) = &second {
                    let mut vs2 = Vec::new();
                    for j in 0..n {
                        match lib!("verify_init", vdaf.verify_init(&key, &c.0, j, &ap, &n2, p2, &s2[j])) {
                            Ok((_, sh)) => vs2.push(sh),
                            Err(e) => {
                                ctx.fail(Violation::new("C16.valid_refused", format!("verify_init|{}", inst.class), format!("verify_init refused aggregator {j}'s honest share (second report) of {:?}: {e}", inst)));
                                return Ok(());
                            }
                        }
                    }
                    other_msg = lib!("verifier_shares_to_message", vdaf.verifier_shares_to_message(&c.0, &ap, vs2)).ok();
                }
                // another report's message handed to this report's states: error or a (rejecting /
                // accepting) transition, never a panic
                if let Some(m2) = &other_msg {
                    for st in &states {
                        match guard("verify_next(message of another report)", || vdaf.verify_next(&c.0, st.clone(), m2.clone())) {
                            Err(v) => {
                                ctx.fail(v);
                                return Ok(());
                            }
                            Ok(Ok(_)) => ctx.counters.inc("c16.late.foreign_message_processed"),
                            Ok(Err(_)) => ctx.counters.inc("c16.refused"),
                        }
                    }
                }
                // honest continuation, remembering each round's message and shares
                let mut outs: Vec<V::OutputShare> = Vec::new();
                let mut first_round: Option<(V::VerifierMessage, Vec<V::VerifierShare>)> = None;
                let mut round = 0;
                loop {
                    let msg = lib!("verifier_shares_to_message", vdaf.verifier_shares_to_message(&c.0, &ap, vshares.clone())).map_err(|e| format!("honest verifier_shares_to_message failed: {e}"))?;
                    if round == 0 {
                        first_round = Some((msg.clone(), vshares.clone()));
                    } else if let Some((m0, vs0)) = &first_round {
                        // an EARLIER round's message / shares replayed into this round
                        for st in &states {
                            match guard("verify_next(message of an earlier round)", || vdaf.verify_next(&c.0, st.clone(), m0.clone())) {
                                Err(v) => {
                                    ctx.fail(v);
                                    return Ok(());
                                }
                                Ok(Ok(VerifyTransition::Finish(_))) => ctx.fail(Violation::new("C16.accepts", format!("late|stale_message|{}", inst.class), "verify_next released an output share for the previous round's message".to_string())),
                                Ok(_) => ctx.counters.inc("c16.refused"),
                            }
                        }
                        let mut mixed = vshares.clone();
                        mixed[0] = vs0[0].clone();
                        match guard("verifier_shares_to_message(shares of two rounds)", || vdaf.verifier_shares_to_message(&c.0, &ap, mixed)) {
                            Err(v) => {
                                ctx.fail(v);
                                return Ok(());
                            }
                            Ok(Ok(_)) => ctx.counters.inc("c16.late.mixed_rounds_processed"),
                            Ok(Err(_)) => ctx.counters.inc("c16.refused"),
                        }
                    }
                    let mut next_states = Vec::new();
                    let mut next_shares = Vec::new();
                    for st in states.drain(..) {
                        match lib!("verify_next", vdaf.verify_next(&c.0, st, msg.clone())).map_err(|e| format!("honest verify_next failed: {e}"))? {
                            VerifyTransition::Continue(s2, sh2) => {
                                next_states.push(s2);
                                next_shares.push(sh2);
                            }
                            VerifyTransition::Finish(o) => outs.push(o),
                        }
                    }
                    if next_states.is_empty() {
                        break;
                    }
                    states = next_states;
                    vshares = next_shares;
                    round += 1;
                    if round > 8 {
                        return Err("more than 8 rounds".into());
                    }
                }
                if outs.len() != n {
                    return Err(format!("{} output shares for {n} aggregators", outs.len()));
                }
                // aggregate shares, then unshard with wrong counts / extreme measurement counts
                let mut aggs: Vec<V::AggregateShare> = Vec::new();
                for o in &outs {
                    aggs.push(lib!("aggregate", vdaf.aggregate(&ap, [o.clone()])).map_err(|e| format!("honest aggregate failed: {e}"))?);
                }
                let counts = [0usize, n - 1, n + 1, 255, 256 + n];
                for (i, k) in counts.iter().enumerate() {
                    for nm in [0usize, 1, 2, usize::MAX] {
                        if i >= 3 && nm != 1 {
                            continue;
                        }
                        let list: Vec<V::AggregateShare> = aggs.iter().cloned().cycle().take(*k).collect();
                        match guard("unshard(wrong number of aggregate shares / extreme count)", || vdaf.unshard(&ap, list, nm)) {
                            Err(v) => {
                                ctx.fail(v);
                                return Ok(());
                            }
                            Ok(Ok(_)) => ctx.counters.inc("c16.late.unshard_processed"),
                            Ok(Err(_)) => ctx.counters.inc("c16.refused"),
                        }
                    }
                }
                for nm in [0usize, usize::MAX, 1 << 32, (1 << 53) + 1] {
                    match guard("unshard(extreme measurement count)", || vdaf.unshard(&ap, aggs.clone(), nm)) {
                        Err(v) => {
                            ctx.fail(v);
                            return Ok(());
                        }
                        Ok(_) => ctx.counters.inc("c16.late.unshard_processed"),
                    }
                }
                // Poplar1: the same shares under a parameter with another number of candidates
                if inst.class == "poplar1" && !apspec.is_empty() {
                    let mut other_pref: Vec<char> = apspec[0].chars().collect();
                    let last = other_pref.len() - 1;
                    other_pref[last] = if other_pref[last] == '0' { '1' } else { '0' };
                    let mut spec2 = vec![apspec[0].clone(), other_pref.into_iter().collect::<String>()];
                    spec2.sort();
                    let ap2 = ad.agg_param(&spec2)?;
                    match guard("aggregate(parameter with another number of candidates)", || vdaf.aggregate(&ap2, outs.clone())) {
                        Err(v) => ctx.fail(v),
                        Ok(Ok(_)) => ctx.fail(Violation::new("C16.accepts", "late|aggregate_len|poplar1".to_string(), "aggregate accepted 1-candidate output shares under a 2-candidate parameter".to_string())),
                        Ok(Err(_)) => ctx.counters.inc("c16.refused"),
                    }
                    match guard("unshard(parameter with another number of candidates)", || vdaf.unshard(&ap2, aggs.clone(), 1)) {
                        Err(v) => ctx.fail(v),
                        Ok(Ok(_)) => ctx.fail(Violation::new("C16.accepts", "late|unshard_len|poplar1".to_string(), "unshard accepted 1-candidate aggregate shares under a 2-candidate parameter".to_string())),
                        Ok(Err(_)) => ctx.counters.inc("c16.refused"),
                    }
                }
            }
            _ => {
                // objects of a differently parameterised instance of the same Rust type
                let Some(o) = other else { return Ok(()) };
                let om = {
                    let mut r = Rng::new(*id);
                    model::gen_meas(o, &mut r)
                };
                let orand: Vec<u8> = rand.0.iter().cycle().take(model::rand_len(o)).cloned().collect();
                let (opb, oib) = match dispatch(o, ShardVis { c: &c.0, meas: &om, nonce: n16, rand: &orand }) {
                    Ok(Ok(x)) => x,
                    _ => {
                        ctx.counters.inc("c16.cross_instance_other_unbuildable");
                        return Ok(());
                    }
                };
                // decode the foreign bytes under OUR instance (wire path) ...
                for j in 0..n.min(oib.len()) {
                    match guard("InputShare::decode(foreign instance bytes)", || V::InputShare::get_decoded_with_param(&(vdaf, j), &oib[j])) {
                        Err(v) => ctx.fail(v),
                        Ok(Ok(sh)) => {
                            // accepted by the decoder: processing it must not panic
                            match guard("verify_init(foreign-instance share that decodes)", || vdaf.verify_init(&key, &c.0, j, &ap, &n16, &public, &sh)) {
                                Err(v) => ctx.fail(v),
                                Ok(_) => ctx.counters.inc("c16.cross_instance_processed"),
                            }
                        }
                        Ok(Err(_)) => ctx.counters.inc("c16.refused"),
                    }
                }
                match guard("PublicShare::decode(foreign instance bytes)", || V::PublicShare::get_decoded_with_param(vdaf, &opb)) {
                    Err(v) => ctx.fail(v),
                    Ok(_) => {}
                }
                // ... objects of ANOTHER CLASS with the same share type (e.g. an Average helper share
                // given to a Histogram instance), obtained through `Any`
                if o.class != inst.class {
                    if let Ok(Ok(objs)) = dispatch(o, ObjVis { pb: &opb, ib: &oib }) {
                        for (j, obj) in objs.1.iter().enumerate().take(n) {
                            let Some(osh) = obj.downcast_ref::<V::InputShare>() else { continue };
                            for pubref in [Some(&public), objs.0.downcast_ref::<V::PublicShare>()].into_iter().flatten() {
                                match guard("verify_init(share object of another class with the same share type)", || vdaf.verify_init(&key, &c.0, j, &ap, &n16, pubref, osh)) {
                                    Err(v) => {
                                        ctx.fail(v);
                                        return Ok(());
                                    }
                                    Ok(_) => ctx.counters.inc("c16.cross_class_objects_processed"),
                                }
                            }
                        }
                    }
                }
                // ... and hand foreign OBJECTS to our instance (API path): a second instance of the
                // same Rust type decodes its own shares; our instance must answer with an error
                if let Some(theirs) = ad.same_type_instance(o) {
                    if let Ok(opublic) = V::PublicShare::get_decoded_with_param(&theirs, &opb) {
                        for j in 0..oib.len().min(n) {
                            let Ok(osh) = V::InputShare::get_decoded_with_param(&(&theirs, j), &oib[j]) else { continue };
                            for pubref in [&public, &opublic] {
                                match guard("verify_init(objects of a differently parameterised instance)", || vdaf.verify_init(&key, &c.0, j, &ap, &n16, pubref, &osh)) {
                                    Err(v) => {
                                        ctx.fail(v);
                                        return Ok(());
                                    }
                                    Ok(_) => ctx.counters.inc("c16.cross_instance_objects_processed"),
                                }
                            }
                        }
                    }
                }
            }
        }
        Ok(())
    }
}

fn exec(p: &Plan16, ctx: &mut Ctx, counters2: &mut Counters) -> Result<(), String> {
    ctx.nontrivial = true;
    match p {
        Plan16::Ctor { class, n, proofs, max, len, chunk, weight, seed } => {
            ctx.sig.str("ctor").str(class).u64(*n as u64).u64(*proofs as u64).u64(max.0 as u64 ^ (max.0 >> 64) as u64).u64(*len).u64(*chunk).u64(*weight);
            ctx.counters.inc(&format!("ctor.{class}"));
            ctx.fault("caller_misuse.constructor_arguments");
            ctx.events += 1;
            let (len_u, chunk_u, weight_u) = (*len as usize, *chunk as usize, *weight as usize);
            let m = max.0;
            // the constructor call itself
            let r: Result<Result<(), String>, Violation> = match class.as_str() {
                "count" => guard("Prio3::new_count", || Prio3::new_count(*n).map(|_| ()).map_err(|e| e.to_string())),
                "sum" => guard("Prio3::new_sum", || Prio3::new_sum(*n, m as u64).map(|_| ()).map_err(|e| e.to_string())),
                "sum128" => guard("Sum::<Field128>::new", || prio::flp::types::Sum::<prio::field::Field128>::new(m).map(|_| ()).map_err(|e| e.to_string())),
                "avg" => guard("Prio3::new_average", || Prio3::new_average(*n, m).map(|_| ()).map_err(|e| e.to_string())),
                "sumvec" => guard("Prio3::new_sum_vec", || Prio3::new_sum_vec(*n, m, len_u, chunk_u).map(|v| { let _ = (v.output_len(), v.verifier_len()); }).map_err(|e| e.to_string())),
                "sumvec-mt" => guard("Prio3::new_sum_vec_multithreaded", || Prio3::new_sum_vec_multithreaded(*n, m, len_u, chunk_u).map(|v| { let _ = (v.output_len(), v.verifier_len()); }).map_err(|e| e.to_string())),
                "hist" => guard("Prio3::new_histogram", || Prio3::new_histogram(*n, len_u, chunk_u).map(|v| { let _ = (v.output_len(), v.verifier_len()); }).map_err(|e| e.to_string())),
                "hist-mt" => guard("Prio3::new_histogram_multithreaded", || Prio3::new_histogram_multithreaded(*n, len_u, chunk_u).map(|v| { let _ = (v.output_len(), v.verifier_len()); }).map_err(|e| e.to_string())),
                "multihot" => guard("Prio3::new_multihot_count_vec", || Prio3::new_multihot_count_vec(*n, len_u, weight_u, chunk_u).map(|v| { let _ = (v.output_len(), v.verifier_len()); }).map_err(|e| e.to_string())),
                "multihot-mt" => guard("Prio3::new_multihot_count_vec_multithreaded", || Prio3::new_multihot_count_vec_multithreaded(*n, len_u, weight_u, chunk_u).map(|v| { let _ = (v.output_len(), v.verifier_len()); }).map_err(|e| e.to_string())),
                "l1" => guard("Prio3::new_l1_bound_sum", || Prio3::new_l1_bound_sum(*n, m, len_u, chunk_u).map(|v| { let _ = (v.output_len(), v.verifier_len()); }).map_err(|e| e.to_string())),
                "prio2" => guard("Prio2::new", || Prio2::new(len_u).map(|_| ()).map_err(|e| e.to_string())),
                "generic" => guard("Prio3::new", || Prio3::<_, prio::vdaf::xof::XofTurboShake128, 32>::new(*n, *proofs, 0xFFFF_1234, prio::flp::types::Count::<prio::field::Field64>::new()).map(|_| ()).map_err(|e| e.to_string())),
                "poplar1" => {
                    // infallible constructor; the Result-returning operation is shard
                    if len_u > 70_000 {
                        return Ok(());
                    }
                    let v: Poplar1<prio::vdaf::xof::XofTurboShake128, 32> = Poplar1::new_turboshake128(len_u);
                    let input = prio::idpf::IdpfInput::from_bools(&vec![true; len_u]);
                    if len_u == 0 {
                        // the constructor is infallible by signature: every Result-returning operation
                        // of the zero-bit instance must answer with an error (or a value), not panic
                        use prio::codec::ParameterizedDecode as PD;
                        use prio::vdaf::poplar1::{Poplar1AggregationParam, Poplar1FieldVec, Poplar1InputShare, Poplar1PublicShare, Poplar1VerifierState};
                        use prio::vdaf::{Aggregator, Collector};
                        let ap = Poplar1AggregationParam::try_from_prefixes(vec![prio::idpf::IdpfInput::from_bools(&[*seed & 1 == 1])]).map_err(|e| e.to_string())?;
                        let bytes: Vec<u8> = (0..400).map(|i| (seed.wrapping_mul(i as u64 + 1) >> 7) as u8 & 0x3f).collect();
                        let ops: Vec<(&str, Box<dyn Fn() -> bool + '_>)> = vec![
                            ("Poplar1(0 bits)::aggregate", Box::new(|| v.aggregate(&ap, std::iter::empty()).is_ok())),
                            ("Poplar1(0 bits)::unshard", Box::new(|| v.unshard(&ap, std::iter::empty(), 0).is_ok())),
                            ("Poplar1InputShare::decode(0-bit instance)", Box::new(|| <Poplar1InputShare<32> as PD<_>>::get_decoded_with_param(&(&v, 0usize), &bytes).is_ok())),
                            ("Poplar1PublicShare::decode(0-bit instance)", Box::new(|| <Poplar1PublicShare as PD<_>>::get_decoded_with_param(&v, &bytes).is_ok())),
                            ("Poplar1FieldVec::decode(0-bit instance)", Box::new(|| <Poplar1FieldVec as PD<_>>::get_decoded_with_param(&(&v, &ap), &bytes[..8]).is_ok())),
                            ("Poplar1VerifierState::decode(0-bit instance)", Box::new(|| <Poplar1VerifierState as PD<_>>::get_decoded_with_param(&(&v, 1usize), &bytes).is_ok())),
                        ];
                        for (label, op) in ops {
                            match guard(label, || op()) {
                                Err(viol) => {
                                    ctx.fail(viol);
                                    return Ok(());
                                }
                                Ok(_) => ctx.counters.inc("c16.zero_bit_instance_op_done"),
                            }
                        }
                    }
                    guard("Poplar1::shard", || v.shard(b"", &input, &[0u8; 16]).map(|_| ()).map_err(|e| e.to_string()))
                }
                _ => return Ok(()),
            };
            match r {
                Err(v) => {
                    ctx.fail(v);
                    return Ok(());
                }
                Ok(Err(_)) => {
                    ctx.counters.inc("c16.ctor_refused");
                    return Ok(());
                }
                Ok(Ok(())) => ctx.counters.inc("c16.ctor_accepted"),
            }
            // accepted: within the memory budget it must work end to end
            let base = class.trim_end_matches("-mt");
            let known = matches!(base, "count" | "sum" | "avg" | "sumvec" | "hist" | "multihot" | "l1" | "prio2" | "poplar1");
            // parameters that do not survive the harness's narrower Inst representation are not run
            let fits = *len <= u32::MAX as u64 && *chunk <= u32::MAX as u64 && *weight <= u32::MAX as u64 && (base != "sum" || m <= u64::MAX as u128) && *chunk >= 1 && *weight >= 1;
            if known && fits && !too_big(class, *n, *proofs, m, *len, *chunk, *weight) && *n <= 16 {
                let inst = Inst { class: base.to_string(), n: if matches!(base, "prio2" | "poplar1") { 2 } else { *n }, proofs: 1, max: *max, len: *len as u32, chunk: (*chunk).max(1) as u32, weight: (*weight).max(1) as u32, mt: class.ends_with("-mt"), named: true, xof: String::new() };
                if base == "avg" && m > (1 << 58) {
                    return Ok(());
                }
                if inst.len == 0 && matches!(base, "poplar1") {
                    return Ok(());
                }
                match run_one_report(&inst, *seed, counters2) {
                    Ok(None) => ctx.counters.inc("c16.accepted_instance_works"),
                    Ok(Some(v)) => ctx.fail(Violation::new("C16.unusable_instance", format!("unusable|{class}|{}", normalise_digits(&v.signature)), format!("constructor accepted {p:?} but a one-report run fails: {}", v.detail))),
                    Err(e) => {
                        if e.contains("constructor refuses") {
                            ctx.fail(Violation::new("C16.inconsistent_constructors", format!("ctor_disagree|{class}"), format!("the named constructor accepted {p:?} but the type constructor refuses the same parameters: {e}")));
                        } else {
                            return Err(e);
                        }
                    }
                }
            } else {
                ctx.counters.inc("c16.accepted_instance_not_run_over_budget");
            }
            Ok(())
        }
        Plan16::Meas { inst, meas, ctx: c, nonce, rand, what } => {
            ctx.sig.str("meas").str(&inst.class).str(what).u64(inst.len as u64);
            ctx.counters.inc(&format!("meas.{}.{what}", inst.class));
            ctx.fault("caller_misuse.measurement");
            ctx.events += 1;
            let mut n16 = [0u8; 16];
            n16.copy_from_slice(&nonce.0);
            // is the measurement AS THE ADAPTER CONVERTS IT (`as u64` / `as usize` / `!= 0`) still in
            // the domain? then nothing to assert
            let conv = |x: u128| -> u128 {
                match inst.class.as_str() {
                    "count" | "multihot" | "poplar1" => (x != 0) as u128,
                    "sum" | "sumvec64" | "hist" => x as u64 as u128,
                    "prio2" => x as u32 as u128,
                    _ => x,
                }
            };
            let scalar = matches!(inst.class.as_str(), "count" | "sum" | "avg" | "hist");
            if scalar && meas.is_empty() {
                return Ok(()); // the harness cannot even build the scalar measurement
            }
            let cm: Vec<u128> = if scalar { vec![conv(meas[0].0)] } else { meas.iter().map(|x| conv(x.0)).collect() };
            let in_domain = (scalar || cm.len() == inst.len as usize)
                && match inst.class.as_str() {
                    "count" => true,
                    "sum" | "avg" => cm[0] <= inst.max.0,
                    "sumvec" | "sumvec64" => cm.iter().all(|x| *x <= inst.max.0),
                    "hist" => cm[0] < inst.len as u128,
                    "multihot" => cm.iter().sum::<u128>() <= inst.weight as u128,
                    "l1" => cm.iter().all(|x| *x <= inst.max.0) && cm.iter().fold(0u128, |a, b| a.saturating_add(*b)) <= inst.max.0,
                    _ => true, // prio2: the public shard accepts arbitrary u32 entries by design; poplar1: any bit string of the right length
                };
            let r = dispatch(inst, ShardVisMisuse { c: &c.0, meas, nonce: n16, rand: &rand.0 });
            match r {
                Ok(Ok(true)) => {
                    if what == "long_ctx" {
                        if c.0.len() > 65_527 && inst.class != "prio2" {
                            ctx.fail(Violation::new("C16.accepts", format!("long_ctx|{}", inst.class), format!("shard accepted a {}-byte context although the domain-separation tag is limited to 65535 bytes", c.0.len())));
                        } else {
                            ctx.counters.inc("c16.long_ctx_within_limit_accepted");
                        }
                    } else if !in_domain {
                        ctx.fail(Violation::new("C16.accepts", format!("measurement|{}|{what}", inst.class), format!("shard accepted an out-of-domain measurement ({what}) for {:?}: {:?}…", inst, &meas[..meas.len().min(6)])));
                    } else {
                        ctx.counters.inc("c16.meas_in_domain_accepted");
                    }
                }
                Ok(Ok(false)) => {
                    if what == "long_ctx" && c.0.len() <= 65_527 {
                        ctx.fail(Violation::new("C16.refuses_valid", format!("long_ctx|{}", inst.class), format!("shard refused a {}-byte context that fits the domain-separation tag", c.0.len())));
                    } else {
                        ctx.counters.inc("c16.refused");
                    }
                }
                Ok(Err(v)) | Err(BuildErr::Panic(v)) => ctx.fail(v),
                Err(BuildErr::Refused(e)) | Err(BuildErr::Unknown(e)) => return Err(e),
            }
            Ok(())
        }
        Plan16::Agg { inst, what, .. } => {
            ctx.sig.str("agg").str(&inst.class).str(what).u64(inst.n as u64);
            ctx.counters.inc(&format!("agg.{}.{what}", inst.class));
            match dispatch(inst, AggVis { ctx, plan: p }) {
                Ok(r) => r,
                Err(BuildErr::Refused(e)) | Err(BuildErr::Unknown(e)) => Err(e),
                Err(BuildErr::Panic(v)) => Err(v.detail),
            }
        }
        Plan16::Noise { class, n, max, len, chunk, eps_n, eps_d, tape, num_measurements } => {
            use prio::dp::distributions::PureDpDiscreteLaplace;
            use prio::dp::DifferentialPrivacyStrategy;
            use prio::vdaf::{AggregateShare, AggregatorWithNoise};
            ctx.sig.str("noise").str(class).u64(max.0 as u64 ^ (max.0 >> 64) as u64).u64(*len as u64).u64(eps_n.0 as u64).u64(eps_d.0 as u64).u64(*num_measurements);
            ctx.counters.inc(&format!("noise.{class}"));
            ctx.fault("caller_misuse.noise_parameters");
            ctx.fault("rng_tape_replaces_os_randomness");
            ctx.events += 1;
            let strategy = match guard("dp budget", || Rational::from_unsigned(eps_n.0, eps_d.0).and_then(PureDpBudget::new)) {
                Ok(Ok(b)) => PureDpDiscreteLaplace::from_budget(b),
                Ok(Err(_)) => return Err("harness: positive rational refused".into()),
                Err(v) => {
                    ctx.fail(v);
                    return Ok(());
                }
            };
            let (len_u, chunk_u) = (*len as usize, *chunk as usize);
            let nm = *num_measurements as usize;
            // the hook's tape wraps around: a short tape is a periodic random source, under which the
            // samplers' rejection loops can cycle forever (not a library matter). Expand the plan's
            // bytes into a 1 MiB stream so that no rejection loop can see a period.
            let long_tape: Vec<u8> = {
                let mut seed = [0u8; 8];
                seed.copy_from_slice(&tape.0[..8]);
                let mut r = Rng::new(u64::from_le_bytes(seed));
                r.bytes(1 << 20)
            };
            // run the same call twice under the same tape: no panic, and an exactly repeatable result
            macro_rules! drive {
                ($ctor:expr, $fty:ty, $esz:expr) => {{
                    let vdaf = match guard("constructor", || $ctor) {
                        Ok(Ok(v)) => v,
                        Ok(Err(_)) => {
                            ctx.counters.inc("c16.ctor_refused");
                            return Ok(());
                        }
                        Err(v) => {
                            ctx.fail(v);
                            return Ok(());
                        }
                    };
                    use prio::flp::Type as _;
                    let olen = vdaf.output_len();
                    let base: Vec<$fty> = (0..olen).map(|i| <$fty as prio::codec::Decode>::get_decoded(&((tape.0[i % tape.0.len()] as u128) * 0x0101_0101).to_le_bytes()[..$esz]).unwrap()).collect();
                    let mut results: Vec<Result<Vec<u8>, String>> = Vec::new();
                    for _ in 0..2 {
                        let mut share = AggregateShare::from(base.clone());
                        prio::verif_hooks::install_tape(long_tape.clone());
                        let r = guard("add_noise_to_agg_share", || vdaf.add_noise_to_agg_share(&strategy, &(), &mut share, nm));
                        let used = prio::verif_hooks::remove_tape();
                        match r {
                            Err(v) => {
                                ctx.fail(v);
                                return Ok(());
                            }
                            Ok(Err(e)) => results.push(Err(e.to_string())),
                            Ok(Ok(())) => {
                                ctx.counters.add("noise.tape_bytes", used as u64);
                                if used == 0 && olen > 0 {
                                    return Err("add_noise_to_agg_share consumed no tape bytes (hook inactive?)".into());
                                }
                                let enc = prio::codec::Encode::get_encoded(&share).map_err(|e| e.to_string())?;
                                if enc.len() != olen * $esz {
                                    ctx.fail(Violation::new("C16.unusable_instance", format!("noise|len|{class}"), format!("the noised aggregate share has {} bytes, expected {}", enc.len(), olen * $esz)));
                                    return Ok(());
                                }
                                results.push(Ok(enc));
                            }
                        }
                    }
                    if results[0] != results[1] {
                        ctx.fail(Violation::new("C16.noise_replay", format!("noise|replay|{class}"), "the same call under the same randomness tape gave two different results".to_string()));
                    }
                    ctx.counters.inc(if results[0].is_ok() { "c16.noise_added" } else { "c16.refused" });
                }};
            }
            match class.as_str() {
                "sumvec" => drive!(Prio3::new_sum_vec(*n, max.0, len_u, chunk_u), prio::field::Field128, 16),
                "sumvec-mt" => drive!(Prio3::new_sum_vec_multithreaded(*n, max.0, len_u, chunk_u), prio::field::Field128, 16),
                "hist" => drive!(Prio3::new_histogram(*n, len_u + 1, chunk_u), prio::field::Field128, 16),
                "hist-mt" => drive!(Prio3::new_histogram_multithreaded(*n, len_u + 1, chunk_u), prio::field::Field128, 16),
                "l1" => drive!(Prio3::new_l1_bound_sum(*n, max.0, len_u, chunk_u), prio::field::Field128, 16),
                "sumvec64" => drive!(
                    Prio3::<_, prio::vdaf::xof::XofTurboShake128, 32>::new(*n, 1, 0xFFFF_1003, prio::flp::types::SumVec::<prio::field::Field64, prio::flp::gadgets::ParallelSum<prio::field::Field64, prio::flp::gadgets::Mul>>::new(max.0 as u64, len_u, chunk_u).map_err(prio::vdaf::VdafError::from)?),
                    prio::field::Field64,
                    8
                ),
                "hist64" => drive!(
                    Prio3::<_, prio::vdaf::xof::XofTurboShake128, 32>::new(*n, 1, 0xFFFF_1004, prio::flp::types::Histogram::<prio::field::Field64, prio::flp::gadgets::ParallelSum<prio::field::Field64, prio::flp::gadgets::Mul>>::new(len_u + 1, chunk_u).map_err(prio::vdaf::VdafError::from)?),
                    prio::field::Field64,
                    8
                ),
                "l164" => drive!(
                    Prio3::<_, prio::vdaf::xof::XofTurboShake128, 32>::new(*n, 1, 0xFFFF_1007, prio::flp::types::L1BoundSum::<prio::field::Field64, prio::flp::gadgets::ParallelSum<prio::field::Field64, prio::flp::gadgets::Mul>>::new(max.0 as u64, len_u, chunk_u).map_err(prio::vdaf::VdafError::from)?),
                    prio::field::Field64,
                    8
                ),
                _ => {}
            }
            Ok(())
        }
        Plan16::FlpLen { inst, meas, which, arg, delta } => {
            ctx.sig.str("flplen").str(&inst.class).str(which).u64(*arg as u64).u64((*delta as i64 + 200) as u64);
            ctx.counters.inc("c16.flp_wrong_length_cases");
            crate::checks_c05::exec_lengths(ctx, inst, meas, which, *arg, *delta, "C16.accepts")
        }
        Plan16::Dp { n, d, what } => {
            ctx.sig.str("dp").str(what).u64(n.0 as u64).u64(d.0 as u64);
            ctx.fault("caller_misuse.dp_parameters");
            ctx.events += 1;
            let r = guard("dp constructors", || -> Result<(), String> {
                let q = Rational::from_unsigned(n.0, d.0).map_err(|e| e.to_string())?;
                match what.as_str() {
                    "zcdp" => {
                        let b = ZCdpBudget::new(q.clone()).map_err(|e| e.to_string())?;
                        use prio::dp::DifferentialPrivacyStrategy;
                        let s = prio::dp::distributions::ZCdpDiscreteGaussian::from_budget(b);
                        s.create_distribution(q).map(|_| ()).map_err(|e| e.to_string())
                    }
                    "pure" => {
                        let b = PureDpBudget::new(q.clone()).map_err(|e| e.to_string())?;
                        use prio::dp::DifferentialPrivacyStrategy;
                        let s = prio::dp::distributions::PureDpDiscreteLaplace::from_budget(b);
                        s.create_distribution(q).map(|_| ()).map_err(|e| e.to_string())
                    }
                    "gauss" => prio::dp::distributions::DiscreteGaussian::new(q).map(|_| ()).map_err(|e| e.to_string()),
                    "laplace" => prio::dp::distributions::DiscreteLaplace::new(q).map(|_| ()).map_err(|e| e.to_string()),
                    _ => {
                        let _ = q.to_f64();
                        Ok(())
                    }
                }
            });
            match r {
                Err(v) => ctx.fail(v),
                Ok(Err(_)) => {
                    if d.0 != 0 && n.0 != 0 {
                        ctx.fail(Violation::new("C16.refuses_valid", format!("dp|{what}"), format!("DP constructor chain `{what}` refused the positive rational {}/{}", n.0, d.0)));
                    } else {
                        ctx.counters.inc("c16.refused");
                    }
                }
                Ok(Ok(())) => {
                    if d.0 == 0 {
                        ctx.fail(Violation::new("C16.accepts", format!("dp|{what}|zero_denominator"), "a zero denominator was accepted".to_string()));
                    }
                    ctx.counters.inc("c16.dp_accepted");
                }
            }
            Ok(())
        }
    }
}

struct ShardVisMisuse<'a> {
    c: &'a [u8],
    meas: &'a [N],
    nonce: [u8; 16],
    rand: &'a [u8],
}
impl<'a> Visitor for ShardVisMisuse<'a> {
    /// Ok(true) accepted, Ok(false) refused with an error, Err(panic)
    type Out = Result<bool, Violation>;
    fn visit<V, A, const VK: usize>(self, vdaf: &V, ad: &A) -> Self::Out
    where
        V: SimVdaf<VK>,
        A: Adapter<V>,
    {
        match ad.shard(vdaf, self.c, self.meas, &self.nonce, self.rand, false) {
            Ok(_) => Ok(true),
            Err(crate::inst::ShardErr::Refused(_)) => Ok(false),
            Err(crate::inst::ShardErr::Panic(v)) => Err(v),
        }
    }
}

fn exec_top(p: &Plan16, counters: &mut Counters) -> Result<RunOut, String> {
    let mut c2 = Counters::default();
    let r = guard_run(|| {
        let mut ctx = Ctx::new(counters, ACCEPT);
        ctx.trace.str(&serde_json::to_string(p).unwrap_or_default());
        let before: u64 = ctx.counters.0.iter().filter(|(k, _)| k.starts_with("c16.")).map(|(_, v)| *v).sum();
        let r = exec(p, &mut ctx, &mut c2);
        // outcome class: which c16.* counter moved
        let after: Vec<(String, u64)> = ctx.counters.0.iter().filter(|(k, _)| k.starts_with("c16.")).map(|(k, v)| (k.clone(), *v)).collect();
        let total: u64 = after.iter().map(|x| x.1).sum();
        let failed = ctx.failed() as u64;
        ctx.trace.u64(total - before).u64(failed);
        r.map(|_| ctx.finish())
    });
    match r {
        Ok(x) => x,
        Err(e) => Err(e),
    }
}

impl Check for Check16 {
    fn id(&self) -> &'static str {
        "C16"
    }
    fn level(&self) -> &'static str {
        "exploration"
    }
    fn runs(&self, tier: Tier) -> u64 {
        std::env::var("VERIF_RUNS").ok().and_then(|s| s.parse().ok()).unwrap_or(match tier {
            Tier::Quick => 40_000,
            Tier::Thorough => 1_200_000,
        })
    }
    fn gen(&self, seed: u64, _run: u64, _tier: Tier) -> Value {
        serde_json::to_value(gen(seed)).unwrap()
    }
    fn exec(&self, plan: &Value, counters: &mut Counters) -> Result<RunOut, String> {
        let p: Plan16 = serde_json::from_value(plan.clone()).map_err(|e| e.to_string())?;
        exec_top(&p, counters)
    }
    fn gen_exec(&self, seed: u64, _run: u64, _tier: Tier, counters: &mut Counters) -> Result<(RunOut, Option<Value>), String> {
        let p = gen(seed);
        let out = exec_top(&p, counters)?;
        let keep = out.violation.is_some();
        Ok((out, if keep { Some(serde_json::to_value(&p).unwrap()) } else { None }))
    }
    fn shrink(&self, _plan: &Value) -> Vec<Value> {
        Vec::new()
    }
    fn rule(&self) -> String {
        "caller-misuse faults: (flp) Flp::{prove, query, decide, valid} and Type::truncate of every shipped circuit with an argument 1..5 elements short, 1..9 long or empty; (ctor) every public constructor (Prio3 named constructors incl. multithreaded variants, Prio3::new, Sum over both fields, Prio2::new, Poplar1::new + shard) with aggregators in {0,1,2,3,254,255}, proofs in {0,1,2,255}, bounds in {0,1,p-1,p,2^128-1,..} and usize arguments from {0,1,..,2^32-1,2^32,2^63-1,2^64-1}; an accepted instance within the 256 MiB budget must complete a one-report world-A run; (meas) out-of-range / one-short / one-long / empty measurements to shard; (agg) aggregator id >= n, the other role's share object, 0 / n-1 / n+1 verifier shares, and bytes and OBJECTS of a differently parameterised instance of the same Rust type; (dp) Rational / budget / distribution constructors at 0 and extreme values; distinct = distinct (kind, class, argument tuple) signatures".into()
    }
    fn assumptions(&self) -> Vec<String> {
        vec![
            "this property has no schedule in it; the simulator contributes the misuse-fault generators, panic / abort / hang containment, replay; claimed at exploration level".into(),
            "operations whose allocation is proportional to an argument are skipped above the memory budget, as the property allows".into(),
            "AggregatorWithNoise::add_noise_to_agg_share is not driven: it draws from the OS RNG through a path with no seam (listed in DESIGN.md as out of reach without a further hook)".into(),
        ]
    }
    fn components(&self) -> Value {
        json!({"real": ["all public constructors of prio::vdaf::{prio3, prio2, poplar1}, prio::flp::types, prio::dp", "shard / verify_init / verifier_shares_to_message and the id-parameterised decoders"], "stub": ["misuse-fault generator", "world A for the 'accepted instance works' oracle"]})
    }
    fn inapplicable_faults(&self) -> Vec<String> {
        vec!["transport / crash / clock / disk faults: the property is about argument domains of single calls".into()]
    }
}
