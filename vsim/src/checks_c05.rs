//! C05: FLP completeness under degenerate randomness, refusal of root-of-unity query randomness,
//! share-linearity and declared lengths — reached through the SimXof seam (one derivation of a
//! Prio3 run scripted for ALL parties, every other stream recorded), plus wrong-length misuse.

use crate::core::*;
use crate::inst::Inst;
use crate::model;
use crate::rng::Rng;
use crate::sim_xof::{self, ScriptRng, SimXof, XofCfg};
use crate::util::{Counters, Hx, N};
use prio::codec::{Decode, Encode};
use prio::field::{Field128, Field64, FieldElement, NttFriendlyFieldElement};
use prio::flp::gadgets::{Mul, ParallelSum};
use prio::flp::types::{Average, Count, Histogram, L1BoundSum, MultihotCountVec, Sum, SumVec};
use prio::flp::{Flp, Type};
use prio::vdaf::prio3::Prio3;
use prio::vdaf::test_utils::TestVectorClient;
use prio::vdaf::xof::IntoFieldVec;
use prio::vdaf::{Aggregator, VerifyTransition};
use serde::{Deserialize, Serialize};
use serde_json::{json, Value};

#[derive(Clone, Debug, Serialize, Deserialize, PartialEq)]
#[serde(tag = "k")]
pub enum Plan5 {
    /// script the stream of one derivation (3 joint, 4 prove, 5 query randomness) for all parties
    Script { inst: Inst, ctx: Hx, nonce: Hx, rand: Hx, vk: Hx, meas: Vec<N>, usage: u16, pattern: String, root_log: u8, at: u16, val: N },
    /// wrong-length arguments to prove / query / decide / valid
    Lengths { inst: Inst, meas: Vec<N>, which: String, arg: u8, delta: i8 },
    /// the proof system driven directly: arbitrary additive sharings of (input, proof) into k
    /// shares, valid and invalid inputs, honest and arbitrary proofs
    Linear { inst: Inst, meas: Vec<N>, raw: Option<Vec<N>>, shares: u8, pattern: String, arbitrary_proof: bool, seed: u64 },
}

pub struct Check05;
pub fn checks() -> Vec<Box<dyn Check>> {
    vec![Box::new(Check05)]
}
const ACCEPT: &[&str] = &["C05.", "panic"];

pub trait TypVisitor {
    type Out;
    fn visit<T: Type + Clone>(self, typ: T, alg: u32, meas: T::Measurement) -> Self::Out;
}

pub fn with_typ<V: TypVisitor>(inst: &Inst, meas: &[N], v: V) -> Result<V::Out, String> {
    let max = inst.max.0;
    let len = inst.len as usize;
    let chunk = inst.chunk as usize;
    type PS = ParallelSum<Field128, Mul>;
    type PS64 = ParallelSum<Field64, Mul>;
    let e = |e: prio::flp::FlpError| e.to_string();
    Ok(match inst.class.as_str() {
        "count" => v.visit(Count::<Field64>::new(), 1, meas[0].0 != 0),
        "sum" => v.visit(Sum::<Field64>::new(max as u64).map_err(e)?, 2, meas[0].0 as u64),
        "avg" => v.visit(Average::<Field128>::new(max).map_err(e)?, 0xFFFF0000, meas[0].0),
        "sumvec" => v.visit(SumVec::<Field128, PS>::new(max, len, chunk).map_err(e)?, 3, meas.iter().map(|x| x.0).collect::<Vec<u128>>()),
        "sumvec64" => v.visit(SumVec::<Field64, PS64>::new(max as u64, len, chunk).map_err(e)?, 0xFFFF1003, meas.iter().map(|x| x.0 as u64).collect::<Vec<u64>>()),
        "hist" => v.visit(Histogram::<Field128, PS>::new(len, chunk).map_err(e)?, 4, meas[0].0 as usize),
        "multihot" => v.visit(MultihotCountVec::<Field128, PS>::new(len, inst.weight as usize, chunk).map_err(e)?, 5, meas.iter().map(|x| x.0 != 0).collect::<Vec<bool>>()),
        "l1" => v.visit(L1BoundSum::<Field128, PS>::new(max, len, chunk).map_err(e)?, 7, meas.iter().map(|x| x.0).collect::<Vec<u128>>()),
        c => return Err(format!("class {c} has no FLP type")),
    })
}

fn gen(seed: u64) -> Plan5 {
    let mut rng = Rng::new(seed);
    let rng = &mut rng;
    let mut inst = crate::inst::gen_prio3_inst(rng, true, false);
    inst.n = inst.n.min(4).max(2);
    if inst.proofs > 3 {
        inst.proofs = 2;
    }
    let meas = model::gen_meas(&inst, rng);
    if rng.chance(1, 5) {
        let raw = if rng.chance(1, 3) { Some(model::gen_invalid_raw(&inst, rng).0) } else { None };
        return Plan5::Linear { shares: *rng.pick(&[1u8, 2, 2, 3, 4, 7, 16, 255]), pattern: rng.pick(&["random", "random", "zeros", "minus_one", "copy", "first_all"]).to_string(), arbitrary_proof: raw.is_none() && rng.chance(1, 5), seed: rng.u64(), raw, inst, meas };
    }
    if rng.chance(1, 5) {
        return Plan5::Lengths { inst, meas, which: rng.pick(&["prove", "query", "decide", "valid", "truncate"]).to_string(), arg: rng.below(4) as u8, delta: *rng.pick(&[-1i8, -1, 1, 1, 2, 9, -2, i8::MIN]) };
    }
    let usage = *rng.pick(&[3u16, 4, 5, 5, 5]);
    let pattern = *rng.pick(&["zeros", "ones", "repeat", "small", "root", "root", "random", "one_root"]);
    Plan5::Script { ctx: Hx(rng.bytes(3)), nonce: Hx(rng.bytes(16)), rand: Hx(rng.bytes(model::rand_len(&inst))), vk: Hx(rng.bytes(32)), meas, usage, pattern: pattern.to_string(), root_log: rng.below(12) as u8, at: rng.u32() as u16, val: N(rng.u128()), inst }
}

fn pow2k<F: FieldElement>(mut r: F, n: usize) -> F {
    // r^n for n a power of two
    let mut k = n;
    while k > 1 {
        r = r * r;
        k /= 2;
    }
    r
}

fn decode_stream<F: FieldElement>(bytes: &[u8], count: usize) -> Vec<F> {
    let mut s = ScriptRng::new(bytes.to_vec(), 0);
    (&mut s).into_field_vec(count)
}

struct ScriptVis<'a, 'c, 'cc> {
    ctx: &'c mut Ctx<'cc>,
    inst: &'a Inst,
    c: &'a [u8],
    nonce: [u8; 16],
    rand: &'a [u8],
    vk: [u8; 32],
    usage: u16,
    pattern: &'a str,
    root_log: u8,
    at: u16,
    val: u128,
}

impl<'a, 'c, 'cc> TypVisitor for ScriptVis<'a, 'c, 'cc> {
    type Out = Result<(), String>;
    fn visit<T: Type + Clone>(self, typ: T, alg: u32, meas: T::Measurement) -> Self::Out {
        let ctx = self.ctx;
        let inst = self.inst;
        let n = inst.n as usize;
        let proofs = inst.proofs as usize;
        let sim: Prio3<T, SimXof, 32> = Prio3::new(inst.n, inst.proofs, alg, typ.clone()).map_err(|e| e.to_string())?;
        let per = match self.usage {
            3 => typ.joint_rand_len(),
            4 => typ.prove_rand_len(),
            _ => typ.query_rand_len(),
        };
        let count = per * proofs;
        // scripted elements
        let one = T::Field::one();
        let zero = T::Field::zero();
        let small = |k: usize| -> T::Field {
            let mut x = zero;
            for _ in 0..(k % 7) + 2 {
                x = x + one;
            }
            x
        };
        let valb = {
            // a canonical element from the plan's integer
            let p = model::modulus(inst);
            let v = self.val % p;
            T::Field::get_decoded(&v.to_le_bytes()[..T::Field::ENCODED_SIZE]).map_err(|e| e.to_string())?
        };
        let root = <T::Field as NttFriendlyFieldElement>::root(self.root_log as usize).unwrap_or(one);
        let elems: Vec<T::Field> = (0..count)
            .map(|i| match self.pattern {
                "zeros" => zero,
                "ones" => one,
                "repeat" => valb,
                "small" => small(i),
                "root" => root,
                "one_root" => {
                    if count > 0 && i == self.at as usize % count {
                        root
                    } else {
                        small(i) + valb
                    }
                }
                _ => small(i) * valb + small(i + 3),
            })
            .collect();
        let mut script = Vec::new();
        for e in &elems {
            script.extend(e.get_encoded().map_err(|e| e.to_string())?);
        }
        ctx.counters.inc(&format!("script.usage{}.{}", self.usage, self.pattern));
        if count == 0 {
            ctx.counters.inc("script.empty_derivation");
        }
        // expected refusal: some gadget's query element is a root of unity of its wire domain
        let mut refuse = false;
        if self.usage == 5 && count > 0 {
            let skip = if typ.eval_output_len() > 1 { typ.eval_output_len() } else { 0 };
            for p in 0..proofs {
                for (g, gadget) in typ.gadget().iter().enumerate() {
                    let wl = (1 + gadget.calls()).next_power_of_two();
                    let r = elems[p * per + skip + g];
                    if pow2k(r, wl) == one {
                        refuse = true;
                    }
                }
            }
        }
        sim_xof::install(XofCfg { tape: vec![], script: if count > 0 { Some((self.usage, script)) } else { None }, recording: true, ..Default::default() });
        let shard = guard("Prio3<SimXof>::shard_with_random", || sim.shard_with_random(self.c, &meas, &self.nonce, self.rand));
        let (public, shares) = match shard {
            Ok(Ok(x)) => x,
            Ok(Err(e)) => {
                sim_xof::take();
                ctx.fail(Violation::new("C05.complete", format!("shard|{}|{}", inst.class, self.pattern), format!("sharding a valid measurement failed under scripted usage-{} randomness ({}): {e}", self.usage, self.pattern)));
                return Ok(());
            }
            Err(v) => {
                sim_xof::take();
                ctx.fail(v);
                return Ok(());
            }
        };
        let shard_records = sim_xof::CFG.with(|c| c.borrow().record.len());
        let mut states = Vec::new();
        let mut vshares = Vec::new();
        let mut refused = 0;
        for j in 0..n {
            match guard("verify_init", || sim.verify_init(&self.vk, self.c, j, &(), &self.nonce, &public, &shares[j])) {
                Ok(Ok((st, sh))) => {
                    states.push(st);
                    vshares.push(sh);
                }
                Ok(Err(_)) => refused += 1,
                Err(v) => {
                    sim_xof::take();
                    ctx.fail(v);
                    return Ok(());
                }
            }
        }
        let cfg = sim_xof::take();
        ctx.events += cfg.inits;
        if refuse {
            ctx.probe("query_randomness_root_of_unity");
            if refused != n {
                ctx.fail(Violation::new("C05.root_refusal", format!("root|{}", inst.class), format!("{}: query randomness that is a root of unity of a gadget's wire domain was not refused by {} of {n} aggregators", inst.class, n - refused)));
            }
            return Ok(());
        }
        if refused > 0 {
            ctx.fail(Violation::new("C05.complete", format!("init|{}|{}", inst.class, self.pattern), format!("{}: verify_init refused a valid report under scripted usage-{} randomness ({}) at {refused} aggregators", inst.class, self.usage, self.pattern)));
            return Ok(());
        }
        // completeness
        let msg = match guard("verifier_shares_to_message", || sim.verifier_shares_to_message(self.c, &(), vshares.clone())) {
            Ok(Ok(m)) => m,
            Ok(Err(e)) => {
                ctx.fail(Violation::new("C05.complete", format!("decide|{}|{}", inst.class, self.pattern), format!("{}: a proof for a valid input was rejected under scripted usage-{} randomness ({}): {e}", inst.class, self.usage, self.pattern)));
                return Ok(());
            }
            Err(v) => {
                ctx.fail(v);
                return Ok(());
            }
        };
        for st in states.iter() {
            match guard("verify_next", || sim.verify_next(self.c, st.clone(), msg.clone())) {
                Ok(Ok(VerifyTransition::Finish(_))) => {}
                Ok(Ok(_)) => return Err("unexpected Continue".into()),
                Ok(Err(e)) => {
                    ctx.fail(Violation::new("C05.complete", format!("next|{}|{}", inst.class, self.pattern), format!("verify_next refused a valid report: {e}")));
                    return Ok(());
                }
                Err(v) => {
                    ctx.fail(v);
                    return Ok(());
                }
            }
        }
        ctx.counters.inc("c05.accepted_valid");
        // share-linearity and lengths, from the recorded streams (no derivation is re-implemented)
        let first = |u: u16, upto: usize| -> Option<&Vec<u8>> { cfg.record.iter().take(upto).find(|r| r.0 == u).map(|r| &r.1) };
        let all = cfg.record.len();
        let prove_rand: Vec<T::Field> = match first(4, shard_records) {
            Some(b) => decode_stream(b, typ.prove_rand_len() * proofs),
            None => return Err("no prove-randomness stream recorded".into()),
        };
        let joint_rand: Vec<T::Field> = if typ.joint_rand_len() > 0 {
            match first(3, shard_records) {
                Some(b) => decode_stream(b, typ.joint_rand_len() * proofs),
                None => return Err("no joint-randomness stream recorded".into()),
            }
        } else {
            vec![]
        };
        let query_rand: Vec<T::Field> = match cfg.record.iter().skip(shard_records).find(|r| r.0 == 5) {
            Some(r) => decode_stream(&r.1, typ.query_rand_len() * proofs),
            None => return Err("no query-randomness stream recorded".into()),
        };
        let _ = all;
        let encoded = match typ.encode_measurement(&meas) {
            Ok(v) => v,
            Err(e) => {
                ctx.fail(Violation::new("C05.complete", "encode_measurement|refused".to_string(), format!("encode_measurement refused an in-range measurement: {e}")));
                return Ok(());
            }
        };
        let fs = T::Field::ENCODED_SIZE;
        let lb = shares[0].get_encoded().map_err(|e| e.to_string())?;
        let pl = typ.proof_len();
        let il = typ.input_len();
        let vl = typ.verifier_len();
        // helper proof-share streams recorded at shard time, in helper order
        let helper_streams: Vec<&Vec<u8>> = cfg.record.iter().take(shard_records).filter(|r| r.0 == 2).map(|r| &r.1).collect();
        if helper_streams.len() != n - 1 {
            return Err(format!("expected {} helper proof-share streams at shard time, recorded {}", n - 1, helper_streams.len()));
        }
        for p in 0..proofs {
            let pr = &prove_rand[p * typ.prove_rand_len()..(p + 1) * typ.prove_rand_len()];
            let jr = if joint_rand.is_empty() { &joint_rand[..] } else { &joint_rand[p * typ.joint_rand_len()..(p + 1) * typ.joint_rand_len()] };
            let qr = &query_rand[p * typ.query_rand_len()..(p + 1) * typ.query_rand_len()];
            let proof = match guard("Flp::prove", || typ.prove(&encoded, pr, jr)) {
                Ok(Ok(x)) => x,
                Ok(Err(e)) => {
                    ctx.fail(Violation::new("C05.complete", "prove|err", format!("prove failed on a valid input: {e}")));
                    return Ok(());
                }
                Err(v) => {
                    ctx.fail(v);
                    return Ok(());
                }
            };
            if proof.len() != pl {
                ctx.fail(Violation::new("C05.lengths", format!("proof_len|{}", inst.class), format!("prove produced {} elements, proof_len() = {pl}", proof.len())));
                return Ok(());
            }
            // (a) leader proof share + helper expansions = proof
            let mut sum: Vec<T::Field> = (0..pl).map(|k| T::Field::get_decoded(&lb[(il + p * pl + k) * fs..(il + p * pl + k + 1) * fs]).unwrap()).collect();
            for hs in &helper_streams {
                let exp: Vec<T::Field> = decode_stream(hs, pl * proofs);
                for k in 0..pl {
                    sum[k] = sum[k] + exp[p * pl + k];
                }
            }
            if sum != proof {
                ctx.fail(Violation::new("C05.sharing", format!("proof_shares|{}", inst.class), format!("{}: proof shares of proof {p} do not sum to the proof the public prove() gives for the recorded randomness", inst.class)));
                return Ok(());
            }
            // (b) sum of verifier shares = whole-input verifier message
            let whole = match guard("Flp::query", || typ.query(&encoded, &proof, qr, jr, 1)) {
                Ok(Ok(x)) => x,
                Ok(Err(e)) => {
                    ctx.fail(Violation::new("C05.linearity", "query|err", format!("whole-input query failed: {e}")));
                    return Ok(());
                }
                Err(v) => {
                    ctx.fail(v);
                    return Ok(());
                }
            };
            if whole.len() != vl {
                ctx.fail(Violation::new("C05.lengths", format!("verifier_len|{}", inst.class), format!("query produced {} elements, verifier_len() = {vl}", whole.len())));
                return Ok(());
            }
            let mut vsum = vec![zero; vl];
            for sh in &vshares {
                let b = sh.get_encoded().map_err(|e| e.to_string())?;
                for k in 0..vl {
                    vsum[k] = vsum[k] + T::Field::get_decoded(&b[(p * vl + k) * fs..(p * vl + k + 1) * fs]).map_err(|e| e.to_string())?;
                }
            }
            if vsum != whole {
                let k = vsum.iter().zip(whole.iter()).position(|(a, b)| a != b).unwrap_or(0);
                ctx.fail(Violation::new("C05.linearity", format!("verifier|{}", inst.class), format!("{}: the {n} verifier shares of proof {p} sum to something else than the verifier message of the whole input and proof (first difference at element {k})", inst.class)));
                return Ok(());
            }
            match guard("Flp::decide", || typ.decide(&whole)) {
                Ok(Ok(true)) => {}
                Ok(Ok(false)) | Ok(Err(_)) => {
                    ctx.fail(Violation::new("C05.complete", format!("decide_whole|{}", inst.class), "decide rejected the whole-input verifier of a valid input".to_string()));
                    return Ok(());
                }
                Err(v) => {
                    ctx.fail(v);
                    return Ok(());
                }
            }
        }
        ctx.counters.inc("c05.linearity_checked");
        Ok(())
    }
}

struct LinVis<'a, 'c, 'cc> {
    ctx: &'c mut Ctx<'cc>,
    raw: Option<&'a [N]>,
    k: usize,
    pattern: &'a str,
    arbitrary_proof: bool,
    seed: u64,
    class: &'a str,
}

impl<'a, 'c, 'cc> TypVisitor for LinVis<'a, 'c, 'cc> {
    type Out = Result<(), String>;
    fn visit<T: Type + Clone>(self, typ: T, _alg: u32, meas: T::Measurement) -> Self::Out {
        let ctx = self.ctx;
        let mut rng = Rng::new(self.seed);
        let esz = T::Field::ENCODED_SIZE;
        let mut rand_vec = |n: usize| -> Vec<T::Field> { decode_stream::<T::Field>(&rng.bytes((n + 2) * esz * 2), n) };
        let from_raw = |x: u128| -> Result<T::Field, String> { T::Field::get_decoded(&x.to_le_bytes()[..esz]).map_err(|e| format!("harness raw value: {e}")) };
        let input: Vec<T::Field> = match self.raw {
            Some(r) => r.iter().map(|x| from_raw(x.0)).collect::<Result<_, _>>()?,
            None => match typ.encode_measurement(&meas) {
                Ok(v) => v,
                Err(e) => {
                    ctx.fail(Violation::new("C05.complete", "encode_measurement|refused".to_string(), format!("encode_measurement refused an in-range measurement: {e}")));
                    return Ok(());
                }
            },
        };
        if input.len() != typ.input_len() {
            return Err(format!("harness input length {} != {}", input.len(), typ.input_len()));
        }
        let prove_rand = rand_vec(typ.prove_rand_len());
        let joint_rand = rand_vec(typ.joint_rand_len());
        let proof = if self.arbitrary_proof {
            rand_vec(typ.proof_len())
        } else {
            match guard("Flp::prove", || typ.prove(&input, &prove_rand, &joint_rand)) {
                Ok(Ok(p)) => p,
                Ok(Err(e)) => {
                    ctx.fail(Violation::new("C05.complete", format!("prove|{}", self.class), format!("prove refused a well-formed call: {e}")));
                    return Ok(());
                }
                Err(v) => {
                    ctx.fail(v);
                    return Ok(());
                }
            }
        };
        if proof.len() != typ.proof_len() {
            ctx.fail(Violation::new("C05.lengths", format!("proof_len|{}", self.class), format!("proof has {} elements, proof_len() = {}", proof.len(), typ.proof_len())));
            return Ok(());
        }
        // additive sharings of input and proof into k shares
        let k = self.k.max(1);
        let minus_one = T::Field::zero() - T::Field::one();
        let mut split = |v: &[T::Field]| -> Vec<Vec<T::Field>> {
            let mut shares: Vec<Vec<T::Field>> = Vec::with_capacity(k);
            let mut rest: Vec<T::Field> = v.to_vec();
            for i in 0..k - 1 {
                let sh: Vec<T::Field> = match self.pattern {
                    "zeros" => vec![T::Field::zero(); v.len()],
                    "minus_one" => vec![minus_one; v.len()],
                    "copy" => v.to_vec(),
                    "first_all" => {
                        if i == 0 {
                            v.to_vec()
                        } else {
                            vec![T::Field::zero(); v.len()]
                        }
                    }
                    _ => rand_vec(v.len()),
                };
                for (r, s) in rest.iter_mut().zip(sh.iter()) {
                    *r -= *s;
                }
                shares.push(sh);
            }
            shares.push(rest);
            shares
        };
        let in_sh = split(&input);
        let pf_sh = split(&proof);
        ctx.fault("arbitrary_additive_sharing");
        let mut accepted_all = true;
        for attempt in 0..3 {
            let query_rand = rand_vec(typ.query_rand_len());
            let whole = match guard("Flp::query", || typ.query(&input, &proof, &query_rand, &joint_rand, 1)) {
                Ok(Ok(v)) => v,
                Ok(Err(_)) => {
                    // only a root-of-unity query element may be refused; with random elements that is negligible
                    ctx.counters.inc("c05.linear.query_refused");
                    return Ok(());
                }
                Err(v) => {
                    ctx.fail(v);
                    return Ok(());
                }
            };
            if whole.len() != typ.verifier_len() {
                ctx.fail(Violation::new("C05.lengths", format!("verifier_len|{}", self.class), format!("verifier has {} elements, verifier_len() = {}", whole.len(), typ.verifier_len())));
                return Ok(());
            }
            let mut sum = vec![T::Field::zero(); whole.len()];
            for i in 0..k {
                let part = match guard("Flp::query(share)", || typ.query(&in_sh[i], &pf_sh[i], &query_rand, &joint_rand, k)) {
                    Ok(Ok(v)) => v,
                    Ok(Err(e)) => {
                        ctx.fail(Violation::new("C05.linear", format!("share_query_err|{}", self.class), format!("query on share {i} of {k} failed although the whole query succeeded: {e}")));
                        return Ok(());
                    }
                    Err(v) => {
                        ctx.fail(v);
                        return Ok(());
                    }
                };
                if part.len() != sum.len() {
                    ctx.fail(Violation::new("C05.lengths", format!("share_verifier_len|{}", self.class), "verifier share length differs from the whole verifier".to_string()));
                    return Ok(());
                }
                for (a, b) in sum.iter_mut().zip(part.iter()) {
                    *a += *b;
                }
            }
            ctx.events += k as u64 + 1;
            if sum != whole {
                ctx.fail(Violation::new("C05.linear", format!("sum|{}|{}", self.class, self.pattern), format!("the verifier of the whole (input, proof) differs from the sum of the verifiers of a {k}-share `{}` sharing", self.pattern)));
                return Ok(());
            }
            let ok = match guard("Flp::decide", || typ.decide(&sum)) {
                Ok(Ok(b)) => b,
                Ok(Err(e)) => return Err(format!("decide failed on a well-formed verifier: {e}")),
                Err(v) => {
                    ctx.fail(v);
                    return Ok(());
                }
            };
            let honest_valid = self.raw.is_none() && !self.arbitrary_proof;
            if honest_valid {
                if !ok {
                    ctx.fail(Violation::new("C05.complete", format!("decide|{}", self.class), format!("an honest proof for a valid input was rejected (query randomness draw {attempt})")));
                    return Ok(());
                }
                break; // completeness needs one draw
            }
            if !ok {
                accepted_all = false;
                ctx.counters.inc(if self.raw.is_some() { "c05.linear.invalid_rejected" } else { "c05.linear.arbitrary_proof_rejected" });
                break;
            }
        }
        if accepted_all && (self.raw.is_some() || self.arbitrary_proof) {
            ctx.fail(Violation::new("C05.sound", format!("accepts|{}|{}", self.class, if self.raw.is_some() { "invalid_input" } else { "arbitrary_proof" }), "three independent query-randomness draws all accepted an invalid input / an arbitrary proof".to_string()));
        }
        Ok(())
    }
}

struct LenVis<'a, 'c, 'cc> {
    ctx: &'c mut Ctx<'cc>,
    which: &'a str,
    arg: u8,
    delta: i8,
    class: &'a str,
    /// oracle id for "accepted a wrong-length argument" (C05.lengths here; C16 borrows these plans)
    oracle: &'a str,
}

/// The wrong-length misuse case, also run by C16 (fallible FLP operations must refuse, not panic).
pub fn exec_lengths(ctx: &mut Ctx, inst: &Inst, meas: &[N], which: &str, arg: u8, delta: i8, oracle: &str) -> Result<(), String> {
    with_typ(inst, meas, LenVis { ctx, which, arg, delta, class: &inst.class, oracle })?
}

impl<'a, 'c, 'cc> TypVisitor for LenVis<'a, 'c, 'cc> {
    type Out = Result<(), String>;
    fn visit<T: Type + Clone>(self, typ: T, _alg: u32, meas: T::Measurement) -> Self::Out {
        let ctx = self.ctx;
        let adj = |v: &mut Vec<T::Field>, d: i8| {
            if d == i8::MIN {
                v.clear();
            } else if d < 0 {
                for _ in 0..d.unsigned_abs() {
                    v.pop();
                }
            } else {
                for _ in 0..d {
                    v.push(T::Field::one());
                }
            }
        };
        let z = |n: usize| vec![T::Field::one(); n];
        let mut input = match typ.encode_measurement(&meas) {
            Ok(v) => v,
            Err(e) => {
                ctx.fail(Violation::new("C05.complete", "encode_measurement|refused".to_string(), format!("encode_measurement refused an in-range measurement: {e}")));
                return Ok(());
            }
        };
        let mut prove_rand = z(typ.prove_rand_len());
        let mut joint_rand = z(typ.joint_rand_len());
        let mut query_rand: Vec<T::Field> = (0..typ.query_rand_len()).map(|i| (0..i + 2).fold(T::Field::zero(), |a, _| a + T::Field::one())).collect();
        let mut proof = z(typ.proof_len());
        let mut verifier = z(typ.verifier_len());
        let r: Result<Result<bool, String>, Violation> = match self.which {
            "prove" => {
                match self.arg % 3 {
                    0 => adj(&mut input, self.delta),
                    1 => adj(&mut prove_rand, self.delta),
                    _ => adj(&mut joint_rand, self.delta),
                }
                if self.arg % 3 == 2 && typ.joint_rand_len() == 0 && self.delta < 0 {
                    return Ok(());
                }
                guard("Flp::prove(wrong length)", || typ.prove(&input, &prove_rand, &joint_rand).map(|_| true).map_err(|e| e.to_string()))
            }
            "query" => {
                match self.arg % 4 {
                    0 => adj(&mut input, self.delta),
                    1 => adj(&mut proof, self.delta),
                    2 => adj(&mut query_rand, self.delta),
                    _ => adj(&mut joint_rand, self.delta),
                }
                if self.arg % 4 == 3 && typ.joint_rand_len() == 0 && self.delta < 0 {
                    return Ok(());
                }
                guard("Flp::query(wrong length)", || typ.query(&input, &proof, &query_rand, &joint_rand, 2).map(|_| true).map_err(|e| e.to_string()))
            }
            "decide" => {
                adj(&mut verifier, self.delta);
                guard("Flp::decide(wrong length)", || typ.decide(&verifier).map_err(|e| e.to_string()))
            }
            "truncate" => {
                adj(&mut input, self.delta);
                guard("Type::truncate(wrong length)", || typ.truncate(input.clone()).map(|_| true).map_err(|e| e.to_string()))
            }
            _ => {
                match self.arg % 2 {
                    0 => adj(&mut input, self.delta),
                    _ => adj(&mut joint_rand, self.delta),
                }
                if self.arg % 2 == 1 && typ.joint_rand_len() == 0 && self.delta < 0 {
                    return Ok(());
                }
                guard("Flp::valid(wrong length)", || typ.valid(&mut typ.gadget(), &input, &joint_rand, 1).map(|_| true).map_err(|e| e.to_string()))
            }
        };
        ctx.events += 1;
        ctx.fault("caller_misuse.wrong_length");
        match r {
            Err(v) => ctx.fail(v),
            Ok(Err(_)) => ctx.counters.inc("c05.wrong_length_refused"),
            Ok(Ok(_)) => ctx.fail(Violation::new(self.oracle, format!("accepts_wrong_length|{}|{}", self.class, self.which), format!("{}::{} accepted an argument (index {}) that is one element too {}", self.class, self.which, self.arg, if self.delta < 0 { "short" } else { "long" }))),
        }
        Ok(())
    }
}

fn exec(p: &Plan5, ctx: &mut Ctx) -> Result<(), String> {
    ctx.nontrivial = true;
    match p {
        Plan5::Script { inst, ctx: c, nonce, rand, vk, meas, usage, pattern, root_log, at, val } => {
            ctx.sig.str("script").str(&inst.class).u64(inst.n as u64).u64(inst.proofs as u64).u64(*usage as u64).str(pattern).u64(*root_log as u64).u64(inst.len as u64).u64(inst.chunk as u64);
            ctx.counters.inc(&format!("class.{}", inst.class));
            let mut n16 = [0u8; 16];
            n16.copy_from_slice(&nonce.0);
            let mut k32 = [0u8; 32];
            k32.copy_from_slice(&vk.0);
            with_typ(inst, meas, ScriptVis { ctx, inst, c: &c.0, nonce: n16, rand: &rand.0, vk: k32, usage: *usage, pattern, root_log: *root_log, at: *at, val: val.0 })?
        }
        Plan5::Linear { inst, meas, raw, shares, pattern, arbitrary_proof, seed } => {
            ctx.sig.str("linear").str(&inst.class).u64(*shares as u64).str(pattern).u64(raw.is_some() as u64).u64(*arbitrary_proof as u64).u64(inst.len as u64).u64(inst.chunk as u64);
            ctx.counters.inc(&format!("class.{}", inst.class));
            with_typ(inst, meas, LinVis { ctx, raw: raw.as_deref(), k: *shares as usize, pattern, arbitrary_proof: *arbitrary_proof, seed: *seed, class: &inst.class })?
        }
        Plan5::Lengths { inst, meas, which, arg, delta } => {
            ctx.sig.str("lengths").str(&inst.class).str(which).u64(*arg as u64).u64((*delta + 1) as u64);
            exec_lengths(ctx, inst, meas, which, *arg, *delta, "C05.lengths")
        }
    }
}

fn exec_top(p: &Plan5, counters: &mut Counters) -> Result<RunOut, String> {
    let r = guard_run(|| {
        let mut ctx = Ctx::new(counters, ACCEPT);
        let r = exec(p, &mut ctx);
        sim_xof::take();
        r.map(|_| ctx.finish())
    });
    match r {
        Ok(x) => x,
        Err(e) => {
            sim_xof::take();
            Err(e)
        }
    }
}

impl Check for Check05 {
    fn id(&self) -> &'static str {
        "C05"
    }
    fn level(&self) -> &'static str {
        "exploration"
    }
    fn runs(&self, tier: Tier) -> u64 {
        std::env::var("VERIF_RUNS").ok().and_then(|s| s.parse().ok()).unwrap_or(match tier {
            Tier::Quick => 30_000,
            Tier::Thorough => 1_000_000,
        })
    }
    fn gen(&self, seed: u64, _run: u64, _tier: Tier) -> Value {
        serde_json::to_value(gen(seed)).unwrap()
    }
    fn exec(&self, plan: &Value, counters: &mut Counters) -> Result<RunOut, String> {
        let p: Plan5 = serde_json::from_value(plan.clone()).map_err(|e| e.to_string())?;
        exec_top(&p, counters)
    }
    fn gen_exec(&self, seed: u64, _run: u64, _tier: Tier, counters: &mut Counters) -> Result<(RunOut, Option<Value>), String> {
        let p = gen(seed);
        let out = exec_top(&p, counters)?;
        let keep = out.violation.is_some();
        Ok((out, if keep { Some(serde_json::to_value(&p).unwrap()) } else { None }))
    }
    fn shrink(&self, plan: &Value) -> Vec<Value> {
        let Ok(p) = serde_json::from_value::<Plan5>(plan.clone()) else { return Vec::new() };
        let mut out = Vec::new();
        if let Plan5::Script { inst, ctx, nonce, rand, vk, meas, usage, pattern, root_log, at, val } = &p {
            if inst.n > 2 {
                let mut i = inst.clone();
                i.n = 2;
                out.push(Plan5::Script { rand: Hx(rand.0.iter().cycle().take(model::rand_len(&i)).cloned().collect()), inst: i, ctx: ctx.clone(), nonce: nonce.clone(), vk: vk.clone(), meas: meas.clone(), usage: *usage, pattern: pattern.clone(), root_log: *root_log, at: *at, val: *val });
            }
            if inst.proofs > 1 && inst.class != "sumvec64" {
                let mut i = inst.clone();
                i.proofs = 1;
                out.push(Plan5::Script { inst: i, ctx: ctx.clone(), nonce: nonce.clone(), rand: rand.clone(), vk: vk.clone(), meas: meas.clone(), usage: *usage, pattern: pattern.clone(), root_log: *root_log, at: *at, val: *val });
            }
        }
        out.into_iter().map(|x| serde_json::to_value(x).unwrap()).collect()
    }
    fn rule(&self) -> String {
        "Prio3 runs over SimXof for every shipped circuit (count, sum, average, sum vector over both fields, histogram, multihot, L1-bound sum; 2..4 aggregators, 1..3 proofs, dividing and non-dividing chunk lengths) where the prove-, joint- or query-randomness derivation is replaced for all parties by a scripted stream (zeros, ones, one repeated value, small integers, a 2^k-th root of unity everywhere or at one position, pseudo-random) and all other streams are recorded; oracles: valid input accepted unless a gadget's query element is a root of unity of its wire domain, in which case every verify_init errs; leader proof share + recorded helper expansions = public prove(); sum of verifier shares = public query(whole input, whole proof, num_shares = 1); declared lengths; plus too-short / too-long / empty arguments to prove / query / decide / valid / truncate refused with an error; plus the proof system driven directly: (input, proof) split into 1..255 additive shares by random and degenerate patterns (all-zero shares, all minus one, copies of the whole, everything in the first share), for valid inputs, invalid encodings (rejected under three independent query-randomness draws) and arbitrary proofs, verifier of the whole = sum of the share verifiers; distinct = distinct (class, n, proofs, scripted usage, pattern, root order, length, chunk) signatures".into()
    }
    fn assumptions(&self) -> Vec<String> {
        vec![
            "soundness for invalid inputs is carried by C02 (Byzantine client, independent random keys), not repeated here".into(),
            "'any additive sharing' is sampled (random and degenerate patterns, 1..255 shares), not enumerated".into(),
            "recorded streams are turned into field elements by the library's own sampler, which C11 checks against a plain-integer reference".into(),
        ]
    }
    fn components(&self) -> Value {
        json!({"real": ["Flp::{prove, query, decide, valid} and Type::{encode_measurement, truncate} of every shipped circuit", "Prio3 shard / verify_init / verifier_shares_to_message / verify_next generic over the Xof trait", "gadgets, polynomial and NTT routines underneath"], "stub": ["SimXof scripted / recording XOF", "ScriptRng"]})
    }
    fn inapplicable_faults(&self) -> Vec<String> {
        vec!["transport / crash / clock / disk faults: the property is about the proof system's functions; the simulator owns the randomness derivations only".into()]
    }
}
