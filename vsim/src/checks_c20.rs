//! C20: aggregation-parameter admissibility. A collector issues collect requests (aggregation
//! parameters as bytes) to two Poplar1 aggregators over a transport that duplicates, reorders and
//! replays them; a Byzantine collector adds non-extending / partially extending / regressing
//! parameters and raw byte strings. Each aggregator keeps the parameters it has accepted for a
//! report and asks the library `is_agg_param_valid(cur, prev)`; the verdict is compared with the
//! specification rule on every (cur, prev) pair the run produces. Constructor and decoder
//! acceptance are compared with a reference predicate.

use crate::core::*;
use crate::inst_poplar::str_to_input;
use crate::rng::Rng;
use crate::util::{Counters, Hx};
use crate::wire::mon_decode;
use prio::codec::{Decode, Encode};
use prio::vdaf::poplar1::{Poplar1, Poplar1AggregationParam};
use prio::vdaf::xof::XofTurboShake128;
use prio::vdaf::Aggregator;
use serde::{Deserialize, Serialize};
use serde_json::{json, Value};

type Pop = Poplar1<XofTurboShake128, 32>;

#[derive(Clone, Debug, Serialize, Deserialize, PartialEq)]
#[serde(tag = "r")]
pub enum Req {
    /// a prefix list offered to the constructor (may be inadmissible for the constructor)
    Prefixes { p: Vec<String> },
    /// raw aggregation-parameter bytes
    Raw { b: Hx },
}

#[derive(Clone, Debug, Serialize, Deserialize, PartialEq)]
pub struct Plan20 {
    pub bits: u32,
    pub reqs: Vec<Req>,
    /// delivery sequence: (aggregator, request index) — duplicates / reordering / replay included
    pub deliveries: Vec<(u8, u16)>,
    /// exhaustive floor for bits = 2 (all parameters, all histories of length <= 2)
    #[serde(default)]
    pub sweep: bool,
    /// storage tape for the IdpfInputs handed to the constructor (offsets into the first storage word; values >= 128:
    /// inputs cut down from longer bit vectors, with dead bits left in the last word); with a tape the aggregators get
    /// the parameter object AS BUILT (a co-located collector) instead of the decoded one
    #[serde(default)]
    pub tape: Vec<u8>,
}

pub struct Check20;
pub fn checks() -> Vec<Box<dyn Check>> {
    vec![Box::new(Check20)]
}
const ACCEPT: &[&str] = &["C20.", "panic"];

// ---- reference rule --------------------------------------------------------------------------

/// constructor / decoder acceptance: non-empty, equal length in 1..=65536, strictly increasing
fn ref_acceptable(p: &[String]) -> bool {
    if p.is_empty() {
        return false;
    }
    let l = p[0].len();
    if l == 0 || l > 65536 {
        return false;
    }
    if p.iter().any(|x| x.len() != l) {
        return false;
    }
    p.windows(2).all(|w| w[0] < w[1])
}

fn ref_valid(cur: &[String], prev: &[Vec<String>]) -> bool {
    let Some(last) = prev.last() else { return true };
    let (cl, ll) = (cur[0].len(), last[0].len());
    if cl <= ll {
        return false;
    }
    cur.iter().all(|c| last.iter().any(|l| c.starts_with(l.as_str())))
}

/// Harness view of the wire layout: level u16, count u32, count * ceil((level+1)/8) bytes.
fn ref_parse(b: &[u8]) -> Option<Vec<String>> {
    if b.len() < 6 {
        return None;
    }
    let level = u16::from_be_bytes([b[0], b[1]]) as usize;
    let count = u32::from_be_bytes([b[2], b[3], b[4], b[5]]) as usize;
    let plen = level + 1;
    let pb = plen.div_ceil(8);
    if count.checked_mul(pb)? != b.len() - 6 {
        return None;
    }
    let mut out = Vec::new();
    for k in 0..count {
        let chunk = &b[6 + k * pb..6 + (k + 1) * pb];
        let mut s = String::with_capacity(plen);
        for i in 0..pb * 8 {
            let bit = (chunk[i / 8] >> (7 - i % 8)) & 1;
            if i < plen {
                s.push(if bit == 1 { '1' } else { '0' });
            } else if bit == 1 {
                return None; // non-zero padding
            }
        }
        out.push(s);
    }
    if !ref_acceptable(&out) {
        return None;
    }
    Some(out)
}

fn to_strings(ap: &Poplar1AggregationParam) -> Vec<String> {
    ap.prefixes().iter().map(|p| p.iter().map(|b| if b { '1' } else { '0' }).collect()).collect()
}

// ---- generation --------------------------------------------------------------------------------

fn rand_prefix(rng: &mut Rng, l: usize) -> String {
    (0..l).map(|_| if rng.chance(1, 2) { '1' } else { '0' }).collect()
}

fn gen(seed: u64) -> Plan20 {
    let mut rng = Rng::new(seed);
    let rng = &mut rng;
    // mostly small trees (dense coverage of the rule); sometimes deep ones, where level jumps of
    // 61..70 and more (shift widths of machine words) and long prefixes occur
    let bits = *rng.pick(&[2u32, 2, 3, 3, 4, 5, 6, 6, 8, 16, 33, 63, 64, 65, 66, 70, 128, 130, 300]);
    let mut reqs: Vec<Req> = Vec::new();
    // the collector's admissible chain
    let k = 1 + rng.usize_below(5.min(bits as usize));
    let mut lens = std::collections::BTreeSet::new();
    while lens.len() < k {
        lens.insert(1 + rng.usize_below(bits as usize));
    }
    let mut last: Option<Vec<String>> = None;
    for l in lens {
        let ap = crate::inst_poplar::gen_prefixes(rng, &[], l, 8, last.as_ref());
        reqs.push(Req::Prefixes { p: ap.clone() });
        last = Some(ap);
    }
    let honest = reqs.len();
    // Byzantine collector
    for _ in 0..rng.below(5) {
        let base: Vec<String> = match &reqs[rng.usize_below(honest)] {
            Req::Prefixes { p } => p.clone(),
            _ => vec![],
        };
        let l0 = base[0].len();
        let r = match rng.below(9) {
            0 => {
                // same level, other prefixes
                let n = 1 + rng.usize_below(4);
                let mut s: Vec<String> = (0..n).map(|_| rand_prefix(rng, l0)).collect();
                s.sort();
                s.dedup();
                Req::Prefixes { p: s }
            }
            1 => {
                // extends the FIRST request rather than the last
                let first = match &reqs[0] {
                    Req::Prefixes { p } => p.clone(),
                    _ => vec![],
                };
                let l = (first[0].len() + 1 + rng.usize_below(3)).min(bits as usize).max(1);
                Req::Prefixes { p: crate::inst_poplar::gen_prefixes(rng, &[], l, 4, Some(&first)) }
            }
            2 => {
                // partial extension: some extend, one does not
                let l = (l0 + 1).min(bits as usize);
                let mut s = crate::inst_poplar::gen_prefixes(rng, &[], l, 4, Some(&base));
                s.push(rand_prefix(rng, l));
                s.sort();
                s.dedup();
                Req::Prefixes { p: s }
            }
            3 => {
                // not sorted / repeated / unequal length / empty: constructor must refuse
                match rng.below(4) {
                    0 => Req::Prefixes { p: vec![] },
                    1 => {
                        let a = rand_prefix(rng, l0);
                        Req::Prefixes { p: vec![a.clone(), a] }
                    }
                    2 => {
                        let mut s: Vec<String> = (0..3).map(|_| rand_prefix(rng, l0)).collect();
                        s.sort();
                        s.reverse();
                        Req::Prefixes { p: s }
                    }
                    _ => Req::Prefixes { p: vec![rand_prefix(rng, l0), rand_prefix(rng, l0 + 1)] },
                }
            }
            4 => Req::Prefixes { p: vec![String::new()] },
            5 => {
                // regress to a shorter level with a parent of the base
                let l = 1 + rng.usize_below(l0);
                let mut s: Vec<String> = base.iter().map(|b| b[..l].to_string()).collect();
                s.sort();
                s.dedup();
                Req::Prefixes { p: s }
            }
            6 => {
                // skip levels, extending the last
                let l = bits as usize;
                Req::Prefixes { p: crate::inst_poplar::gen_prefixes(rng, &[], l, 4, Some(&base)) }
            }
            _ => {
                // raw bytes: header extremes or a mutated honest encoding
                let mut b = vec![0u8; 6];
                let lvl = *rng.pick(&[0u16, 1, 7, 8, 0x7fff, 0xffff, l0 as u16]);
                let cnt = *rng.pick(&[0u32, 1, 2, 0xffff_ffff]);
                b[..2].copy_from_slice(&lvl.to_be_bytes());
                b[2..6].copy_from_slice(&cnt.to_be_bytes());
                let n = rng.usize_below(6);
                b.extend(rng.bytes(n));
                Req::Raw { b: Hx(b) }
            }
        };
        reqs.push(r);
    }
    // deliveries: the honest chain in order, then duplicated / reordered / replayed
    let mut deliveries: Vec<(u8, u16)> = Vec::new();
    for a in 0..2u8 {
        for i in 0..honest as u16 {
            deliveries.push((a, i));
        }
    }
    for _ in 0..rng.below(8) {
        deliveries.push((rng.below(2) as u8, rng.below(reqs.len() as u64) as u16));
    }
    match rng.below(3) {
        0 => {}
        1 => rng.shuffle(&mut deliveries),
        _ => {
            // local reordering: swap a few neighbours
            for _ in 0..3 {
                if deliveries.len() >= 2 {
                    let i = rng.usize_below(deliveries.len() - 1);
                    deliveries.swap(i, i + 1);
                }
            }
        }
    }
    let tape: Vec<u8> = if rng.chance(1, 3) { (0..3 + rng.usize_below(8)).map(|_| match rng.below(3) { 0 => 0, 1 => rng.below(64) as u8, _ => 128 + rng.below(128) as u8 }).collect() } else { Vec::new() };
    Plan20 { bits, reqs, deliveries, sweep: false, tape }
}

// ---- execution ---------------------------------------------------------------------------------

fn lib_valid(ctx: &mut Ctx, cur: &Poplar1AggregationParam, prev: &[Poplar1AggregationParam]) -> Option<bool> {
    match guard("Poplar1::is_agg_param_valid", || Pop::is_agg_param_valid(cur, prev)) {
        Ok(b) => Some(b),
        Err(v) => {
            ctx.fail(v);
            None
        }
    }
}

fn exec(p: &Plan20, ctx: &mut Ctx) -> Result<(), String> {
    crate::inst_poplar::set_offsets(p.tape.clone());
    let r = exec_inner(p, ctx);
    if crate::inst_poplar::clear_offsets() > 0 {
        ctx.probe("unaligned_or_residual_prefix_storage");
    }
    r
}

fn exec_inner(p: &Plan20, ctx: &mut Ctx) -> Result<(), String> {
    ctx.sig.str("C20").u64(p.bits as u64).u64(p.reqs.len() as u64).u64(p.tape.is_empty() as u64);
    ctx.nontrivial = true;
    if p.sweep {
        return sweep_bits2(ctx);
    }
    // requests -> bytes (constructor acceptance vs reference predicate)
    let mut wire: Vec<Option<Vec<u8>>> = Vec::new();
    // parameter objects as the constructor built them (same index as `wire`)
    let mut built: Vec<Option<Poplar1AggregationParam>> = Vec::new();
    for r in &p.reqs {
        match r {
            Req::Raw { b } => {
                wire.push(Some(b.0.clone()));
                built.push(None);
            }
            Req::Prefixes { p: pre } => {
                let inputs = pre.iter().map(|s| str_to_input(s)).collect();
                let got = guard("Poplar1AggregationParam::try_from_prefixes", || Poplar1AggregationParam::try_from_prefixes(inputs));
                let want = ref_acceptable(pre);
                match got {
                    Err(v) => {
                        ctx.fail(v);
                        return Ok(());
                    }
                    Ok(Ok(ap)) => {
                        if !want {
                            ctx.fail(Violation::new("C20.constructor", "try_from_prefixes|accepts_inadmissible", format!("try_from_prefixes accepted an inadmissible prefix list {pre:?}")));
                            return Ok(());
                        }
                        if to_strings(&ap) != *pre {
                            ctx.fail(Violation::new("C20.constructor", "try_from_prefixes|alters", "try_from_prefixes changed the prefix list"));
                            return Ok(());
                        }
                        let b = ap.get_encoded().map_err(|e| e.to_string())?;
                        if ref_parse(&b).as_ref() != Some(pre) {
                            ctx.fail(Violation::new("C20.codec", "agg_param|layout", format!("encoding of {pre:?} does not follow the specified layout")));
                            return Ok(());
                        }
                        ctx.counters.inc("c20.constructor_accepts");
                        wire.push(Some(b));
                        built.push(Some(ap));
                    }
                    Ok(Err(_)) => {
                        if want {
                            ctx.fail(Violation::new("C20.constructor", "try_from_prefixes|refuses_admissible", format!("try_from_prefixes refused an admissible prefix list {pre:?}")));
                            return Ok(());
                        }
                        ctx.counters.inc("c20.constructor_refuses");
                        wire.push(None);
                        built.push(None);
                    }
                }
            }
        }
    }
    // aggregators
    let mut prev: [Vec<Poplar1AggregationParam>; 2] = [Vec::new(), Vec::new()];
    let mut prev_ref: [Vec<Vec<String>>; 2] = [Vec::new(), Vec::new()];
    for (a, i) in &p.deliveries {
        let a = *a as usize % 2;
        let Some(Some(bytes)) = wire.get(*i as usize % wire.len()) else { continue };
        ctx.events += 1;
        ctx.trace.u64(a as u64).bytes(bytes);
        let dec = mon_decode(ctx, "Poplar1AggregationParam", bytes, 0, |b| Poplar1AggregationParam::get_decoded(b), |v| v.get_encoded(), |v| v.encoded_len());
        let want = ref_parse(bytes);
        match (&dec, &want) {
            (Some(d), Some(w)) => {
                if to_strings(d) != *w {
                    ctx.fail(Violation::new("C20.codec", "agg_param|decodes_differently", format!("decoded {:?}, layout says {w:?}", to_strings(d))));
                    return Ok(());
                }
            }
            (None, None) => {
                ctx.counters.inc("c20.decoder_refuses");
                continue;
            }
            (Some(d), None) => {
                ctx.fail(Violation::new("C20.decoder", "agg_param|accepts_inadmissible", format!("decoder accepted {} which is not a non-empty, equal-length, strictly increasing, exactly-sized prefix list: {:?}", crate::util::hex(bytes), to_strings(d))));
                return Ok(());
            }
            (None, Some(w)) => {
                ctx.fail(Violation::new("C20.decoder", "agg_param|refuses_admissible", format!("decoder refused the admissible parameter {w:?}")));
                return Ok(());
            }
        }
        let mut cur = dec.unwrap();
        let curs = want.unwrap();
        // with a storage tape the collector is co-located: the aggregator judges (and remembers) the object as built
        if !p.tape.is_empty() {
            if let Some(Some(b)) = built.get_mut(*i as usize % wire.len()).map(|x| x.take()) {
                ctx.counters.inc("c20.judged_as_built");
                cur = b;
            }
        }
        let Some(got) = lib_valid(ctx, &cur, &prev[a]) else { return Ok(()) };
        let exp = ref_valid(&curs, &prev_ref[a]);
        ctx.sig.u64(got as u64).u64(prev[a].len().min(4) as u64);
        ctx.counters.inc(if exp { "c20.verdict_valid" } else { "c20.verdict_invalid" });
        if !prev[a].is_empty() {
            let ll = prev_ref[a].last().unwrap()[0].len();
            ctx.counters.inc(if curs[0].len() == ll { "c20.history.equal_level" } else if curs[0].len() < ll { "c20.history.regressing" } else if curs[0].len() > ll + 1 { "c20.history.skipping" } else { "c20.history.next_level" });
        }
        if got != exp {
            ctx.fail(Violation::new(
                "C20.verdict",
                format!("is_agg_param_valid|lib_{got}_spec_{exp}"),
                format!("is_agg_param_valid(cur = {curs:?}, prev = {:?}) = {got}; the specification rule says {exp}", prev_ref[a]),
            ));
            return Ok(());
        }
        if got {
            prev[a].push(cur);
            prev_ref[a].push(curs);
        }
    }
    // Prio3 / Prio2: only the first use is valid
    for k in 0..3usize {
        let prevs = vec![(); k];
        let a = prio::vdaf::prio3::Prio3Count::is_agg_param_valid(&(), &prevs);
        let b = prio::vdaf::prio2::Prio2::is_agg_param_valid(&(), &prevs);
        let c = prio::vdaf::prio3::Prio3Histogram::is_agg_param_valid(&(), &prevs);
        if a != (k == 0) || b != (k == 0) || c != (k == 0) {
            ctx.fail(Violation::new("C20.verdict", "prio3_prio2|first_use_only", format!("Prio3/Prio2 is_agg_param_valid with {k} previous uses: {a} {b} {c}")));
        }
    }
    Ok(())
}

/// bits = 2: all 18 parameters, every history of length <= 2.
fn sweep_bits2(ctx: &mut Ctx) -> Result<(), String> {
    let mut all: Vec<Vec<String>> = Vec::new();
    for l in 1..=2usize {
        let univ: Vec<String> = (0..(1 << l)).map(|v| (0..l).map(|i| if (v >> (l - 1 - i)) & 1 == 1 { '1' } else { '0' }).collect()).collect();
        for mask in 1u32..(1 << univ.len()) {
            all.push(univ.iter().enumerate().filter(|(i, _)| mask >> i & 1 == 1).map(|(_, s)| s.clone()).collect());
        }
    }
    let params: Vec<Poplar1AggregationParam> = all.iter().map(|p| Poplar1AggregationParam::try_from_prefixes(p.iter().map(|s| str_to_input(s)).collect()).unwrap()).collect();
    let mut pairs = 0u64;
    let n = all.len();
    let mut hists: Vec<Vec<usize>> = vec![vec![]];
    for i in 0..n {
        hists.push(vec![i]);
        for j in 0..n {
            hists.push(vec![i, j]);
        }
    }
    for h in &hists {
        let prev: Vec<Poplar1AggregationParam> = h.iter().map(|i| params[*i].clone()).collect();
        let prev_ref: Vec<Vec<String>> = h.iter().map(|i| all[*i].clone()).collect();
        for c in 0..n {
            let Some(got) = lib_valid(ctx, &params[c], &prev) else { return Ok(()) };
            let exp = ref_valid(&all[c], &prev_ref);
            pairs += 1;
            if got != exp {
                ctx.fail(Violation::new("C20.verdict", format!("is_agg_param_valid|lib_{got}_spec_{exp}"), format!("is_agg_param_valid(cur = {:?}, prev = {prev_ref:?}) = {got}; the specification rule says {exp}", all[c])));
                return Ok(());
            }
        }
    }
    ctx.events += pairs;
    ctx.counters.add("c20.sweep_pairs", pairs);
    Ok(())
}

fn exec_top(p: &Plan20, counters: &mut Counters) -> Result<RunOut, String> {
    let r = guard_run(|| {
        let mut ctx = Ctx::new(counters, ACCEPT);
        exec(p, &mut ctx).map(|_| ctx.finish())
    });
    match r {
        Ok(x) => x,
        Err(e) => Err(e),
    }
}

impl Check for Check20 {
    fn id(&self) -> &'static str {
        "C20"
    }
    fn level(&self) -> &'static str {
        "exploration"
    }
    fn runs(&self, tier: Tier) -> u64 {
        std::env::var("VERIF_RUNS").ok().and_then(|s| s.parse().ok()).unwrap_or(match tier {
            Tier::Quick => 100_000,
            Tier::Thorough => 3_000_000,
        })
    }
    fn gen(&self, seed: u64, _run: u64, _tier: Tier) -> Value {
        serde_json::to_value(gen(seed)).unwrap()
    }
    fn exec(&self, plan: &Value, counters: &mut Counters) -> Result<RunOut, String> {
        let p: Plan20 = serde_json::from_value(plan.clone()).map_err(|e| e.to_string())?;
        exec_top(&p, counters)
    }
    fn gen_exec(&self, seed: u64, _run: u64, _tier: Tier, counters: &mut Counters) -> Result<(RunOut, Option<Value>), String> {
        let p = gen(seed);
        let out = exec_top(&p, counters)?;
        let keep = out.violation.is_some();
        Ok((out, if keep { Some(serde_json::to_value(&p).unwrap()) } else { None }))
    }
    fn fixed_plans(&self, _tier: Tier) -> Vec<Value> {
        let mut out = vec![serde_json::to_value(Plan20 { bits: 2, reqs: vec![], deliveries: vec![], sweep: true, tape: vec![] }).unwrap()];
        // size limits of the constructor / decoder: prefix lengths around 2^16 (level 65535 is the
        // largest admissible one), single prefixes and pairs
        for l in [65_534usize, 65_535, 65_536, 65_537] {
            let a = "0".repeat(l);
            let mut b = "0".repeat(l - 1);
            b.push('1');
            out.push(serde_json::to_value(Plan20 { bits: 17, reqs: vec![Req::Prefixes { p: vec![a.clone()] }, Req::Prefixes { p: vec![a, b] }], deliveries: vec![(0, 0), (1, 1), (0, 1)], sweep: false, tape: vec![] }).unwrap());
        }
        out
    }
    fn shrink(&self, plan: &Value) -> Vec<Value> {
        let Ok(p) = serde_json::from_value::<Plan20>(plan.clone()) else { return Vec::new() };
        let mut out = Vec::new();
        for i in 0..p.deliveries.len() {
            let mut q = p.clone();
            q.deliveries.remove(i);
            out.push(q);
        }
        out.into_iter().map(|x| serde_json::to_value(x).unwrap()).collect()
    }
    fn rule(&self) -> String {
        "seeded collector traffic for two Poplar1 aggregators (bits 2..16 mostly, 33..300 sometimes; chains of 1..5 admissible parameters with sets <= 8, plus 0..4 Byzantine requests: same-level, extends-first-not-last, partially extending, regressing, level-skipping, constructor-inadmissible lists, raw header extremes), delivered with duplication, reordering and replay; every (cur, prev) pair judged by the specification rule; constructor and decoder acceptance judged by a reference predicate over the harness's own parse of the wire layout; fixed floor: all 18 parameters x all histories of length <= 2 for bits = 2; distinct = distinct (bits, request count, verdict sequence) signatures".into()
    }
    fn assumptions(&self) -> Vec<String> {
        vec!["the specification rule and the wire layout are transliterated in the harness (checks_c20.rs)".into(), "aggregator nodes are thin: they hold the accepted list per report and call the library for every request that decodes".into()]
    }
    fn components(&self) -> Value {
        json!({"real": ["Poplar1::is_agg_param_valid", "Poplar1AggregationParam::{try_from_prefixes, encode, decode}", "Prio3 / Prio2 is_agg_param_valid"], "stub": ["collector, transport (duplication / reordering / replay), aggregator request handling", "reference rule and parser"]})
    }
}
