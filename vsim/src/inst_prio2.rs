//! Prio2 instance class (two aggregators, 32-bit field). Sharding randomness comes from the
//! verif_hooks RNG tape (Prio2::shard and ClientMemory::new call rand::rng() directly).

use crate::core::guard;
use crate::inst::{Adapter, ApSpec, Inst, Kind, Region, ShardErr, SimVdaf};
use crate::model::P32;
use crate::rng::Rng;
use crate::util::N;
use prio::codec::{CodecError, Encode, ParameterizedDecode};
use prio::field::{FieldElement, FieldPrio2};
use prio::topology::ping_pong::PingPongContinuation;
use prio::vdaf::prio2::{Prio2, Prio2VerifierState};
use prio::vdaf::{Client, OutputShare};

impl SimVdaf<32> for Prio2 {
    fn enc_state(s: &Prio2VerifierState) -> Result<Vec<u8>, CodecError> {
        s.get_encoded()
    }
    fn state_len_hint(s: &Prio2VerifierState) -> Option<usize> {
        s.encoded_len()
    }
    fn dec_state(&self, agg_id: usize, b: &[u8]) -> Result<Prio2VerifierState, CodecError> {
        Prio2VerifierState::get_decoded_with_param(&(self, agg_id), b)
    }
    fn enc_cont(c: &PingPongContinuation<32, 16, Self>) -> Result<Vec<u8>, CodecError> {
        c.get_encoded()
    }
    fn cont_len_hint(c: &PingPongContinuation<32, 16, Self>) -> Option<usize> {
        c.encoded_len()
    }
    fn dec_cont(&self, agg_id: usize, b: &[u8]) -> Result<PingPongContinuation<32, 16, Self>, CodecError> {
        PingPongContinuation::get_decoded_with_param(&(self, agg_id), b)
    }
}

pub struct Prio2Ad {
    pub inst: Inst,
}

impl Adapter<Prio2> for Prio2Ad {
    fn inst(&self) -> &Inst {
        &self.inst
    }
    fn rand_len(&self) -> usize {
        64
    }
    fn shard(&self, vdaf: &Prio2, ctx: &[u8], meas: &[N], nonce: &[u8; 16], rand: &[u8], _evil: bool) -> Result<(Vec<u8>, Vec<Vec<u8>>), ShardErr> {
        let m: Vec<u32> = meas.iter().map(|x| x.0 as u32).collect();
        prio::verif_hooks::install_tape(if rand.is_empty() { vec![0] } else { rand.to_vec() });
        let r = guard("Prio2::shard", || vdaf.shard(ctx, &m, nonce));
        let used = prio::verif_hooks::remove_tape();
        let r = r.map_err(ShardErr::Panic)?;
        match r {
            Ok((_, shares)) => {
                if used == 0 {
                    return Err(ShardErr::Refused("harness: Prio2::shard consumed no tape bytes (hook not active?)".into()));
                }
                let mut sb = Vec::new();
                for s in &shares {
                    sb.push(s.get_encoded().map_err(|e| ShardErr::Refused(e.to_string()))?);
                }
                Ok((Vec::new(), sb))
            }
            Err(e) => Err(ShardErr::Refused(e.to_string())),
        }
    }
    fn agg_param(&self, _spec: &ApSpec) -> Result<(), String> {
        Ok(())
    }
    fn result_vec(&self, r: &Vec<u32>) -> Vec<u128> {
        r.iter().map(|x| *x as u128).collect()
    }
    fn out_field(&self, _ap: &ApSpec) -> (usize, u128) {
        (4, P32)
    }
    fn out_len(&self, _ap: &ApSpec) -> usize {
        self.inst.len as usize
    }
    fn layout(&self, kind: Kind, agg: usize, _round: u8, _ap: &ApSpec) -> Vec<Region> {
        let len = self.inst.len as usize;
        let n = (len + 1).next_power_of_two();
        let mut v = Vec::new();
        let mut off = 0;
        let mut push = |name: &'static str, l: usize, elem: usize, v: &mut Vec<Region>| {
            if l > 0 {
                v.push(Region { name, off, len: l, elem });
            }
            off += l;
        };
        match kind {
            Kind::Public | Kind::VMsg => {}
            Kind::Input => {
                if agg == 0 {
                    push("data", 4 * len, 4, &mut v);
                    push("f0_g0_h0", 12, 4, &mut v);
                    push("points_h", 4 * n, 4, &mut v);
                } else {
                    push("share_seed", 32, 1, &mut v);
                }
            }
            Kind::VShare => push("f_r_g_r_h_r", 12, 4, &mut v),
            Kind::State => {
                if agg == 0 {
                    push("data", 4 * len, 4, &mut v);
                } else {
                    push("share_seed", 32, 1, &mut v);
                }
            }
            Kind::Out | Kind::AggShare => push("elements", 4 * len, 4, &mut v),
        }
        v
    }
    fn same_type_instance(&self, other: &Inst) -> Option<Prio2> {
        if other.class != "prio2" {
            return None;
        }
        Prio2::new(other.len as usize).ok()
    }
    #[allow(deprecated)]
    fn wrong_len_output(&self, bytes: &[u8], _ap: &ApSpec, other_level: bool) -> Option<OutputShare<FieldPrio2>> {
        if other_level {
            return None;
        }
        FieldPrio2::byte_slice_into_vec(bytes).ok().map(OutputShare::from)
    }
}

pub fn gen_prio2_inst(rng: &mut Rng, small: bool) -> Inst {
    let len = if small {
        1 + rng.below(12) as u32
    } else {
        match rng.below(6) {
            0 => 1 + rng.below(40) as u32,
            1 => (1u32 << (1 + rng.below(10))) - 2,
            2 => (1u32 << (1 + rng.below(10))) - 1,
            3 => 1u32 << (1 + rng.below(10)),
            4 => 1 + rng.below(300) as u32,
            _ => 1 + rng.below(16) as u32,
        }
    };
    Inst { class: "prio2".into(), n: 2, proofs: 1, max: N(1), len: len.max(1), chunk: 1, weight: 1, mt: false, named: true, xof: String::new() }
}
