//! C07 (canonical, round-tripping, length-exact encodings) and C08 (total decoders): the wire and
//! decode monitors observed over (A) tampering runs of world A for Prio3 / Poplar1 / Prio2 including
//! corruption of stored state and collector-bound shares, (B) the ping-pong world with all fault
//! kinds, (D) a direct world for context-free decoders with header dictionaries and short-string
//! sweeps.

use crate::checks_a::{base_plan, exec_plan_a};
use crate::core::*;
use crate::inst::gen_prio3_inst;
use crate::rng::Rng;
use crate::util::{Counters, Hx, N};
use crate::wire::{mon_decode, mon_encode};
use crate::world_a::*;
use prio::codec::{Decode, Encode, ParameterizedDecode};
use prio::field::{Field128, Field255, Field64, FieldPrio2};
use prio::topology::ping_pong::PingPongMessage;
use prio::vdaf::xof::Seed;
use serde::{Deserialize, Serialize};
use serde_json::{json, Value};

pub struct CheckCodec {
    id: &'static str,
    accept: &'static [&'static str],
}

pub fn checks() -> Vec<Box<dyn Check>> {
    vec![Box::new(CheckCodec { id: "C07", accept: &["C07."] }), Box::new(CheckCodec { id: "C08", accept: &["C08."] })]
}

#[derive(Clone, Debug, Serialize, Deserialize, PartialEq)]
pub struct PlanD {
    /// field64 | field128 | field255 | fieldprio2 | seed16 | seed32 | pop_agg_param | pingpong |
    /// idpf_public | pop_input | pop_state | dummy_state | u8 | u16 | u32 | u64
    pub target: String,
    pub bits: u32,
    pub agg: u8,
    /// honest sample: explicit bytes (fields, seeds, pingpong) or prefixes (agg param)
    pub sample: Hx,
    pub prefixes: Vec<String>,
    /// rewrite the (level: u16, count: u32) header of an aggregation parameter
    pub header: Option<(u16, u32)>,
    pub muts: Vec<Mutation>,
    /// sweep every byte string up to this length (0 = none)
    pub sweep: u8,
    /// decode (also) under a Poplar1 instance with THIS bit length (decoding-parameter skew; 0 = the
    /// zero-bit instance); None = same instance as the encoder
    #[serde(default)]
    pub dec_bits: Option<u32>,
}

#[derive(Clone, Debug, Serialize, Deserialize, PartialEq)]
#[serde(tag = "w")]
pub enum PlanC {
    A { plan: PlanA },
    B { plan: crate::world_b::PlanB },
    D { plan: PlanD },
}

fn gen_mut_raw(rng: &mut Rng) -> Mutation {
    match rng.below(8) {
        0 | 1 => Mutation::Flip { pos: rng.u32(), bit: rng.below(8) as u8 },
        2 => Mutation::Set { pos: rng.u32(), val: *rng.pick(&[0u8, 0xff, 0x80, 1, 2, 3, 0x7f]) },
        3 => Mutation::Trunc { keep: rng.u32() },
        4 => {
            let n = 1 + rng.usize_below(9);
            Mutation::Extend { extra: Hx(rng.bytes(n)) }
        }
        5 => Mutation::FieldAdd { region: rng.u32(), elem: rng.u32(), delta: N(rng.u128()) },
        _ => Mutation::FieldSet {
            region: rng.u32(),
            elem: rng.u32(),
            raw: Hx(match rng.below(4) {
                0 => vec![0xff; 32],
                1 => {
                    // p64 exactly, then 0xff padding: >= p for every field
                    let mut v = crate::model::P64.to_le_bytes()[..8].to_vec();
                    v.extend_from_slice(&[0xff; 24]);
                    v
                }
                2 => {
                    // 2^255 - 19 exactly (Field255 modulus), little endian
                    let mut v = vec![0xff; 32];
                    v[0] = 0xed;
                    v[31] = 0x7f;
                    v
                }
                _ => rng.bytes(32),
            }),
        },
    }
}

fn gen_codec_plan_a(rng: &mut Rng) -> PlanA {
    let which = rng.below(10);
    let inst = if which < 6 {
        let mut i = gen_prio3_inst(rng, true, false);
        if i.n > 5 {
            i.n = 2 + rng.below(4) as u8;
        }
        i
    } else if which < 9 {
        let mut i = crate::inst_poplar::gen_poplar_inst(rng, false);
        i.len = *rng.pick(&[1u32, 2, 3, 4, 8, 16, 17]);
        i
    } else {
        crate::inst_prio2::gen_prio2_inst(rng, true)
    };
    let k = 1 + rng.usize_below(3);
    let mut p = base_plan(inst, "codec", rng, k);
    p.timeouts = true;
    let rounds = if p.inst.class == "poplar1" { 2 } else { 1 };
    if p.inst.class == "poplar1" {
        let inputs: Vec<Vec<N>> = p.reports.iter().map(|r| r.meas.clone()).collect();
        p.aps = crate::inst_poplar::gen_ap_history(rng, &p.inst, &inputs, 2, 5);
    }
    let n = p.inst.n as u64;
    let nf = rng.usize_below(5);
    for _ in 0..nf {
        let rep = rng.below(k as u64) as u32;
        let ap = rng.below(p.aps.len() as u64) as u32;
        let j = rng.below(n) as u8;
        let round = rng.below(rounds) as u8;
        let m = gen_mut_raw(rng);
        let f = match rng.below(6) {
            0 => Fault { kind: EnvKind::Upload, rep, ap: 0, from: CLIENT, to: 0, round: 0, at_source: true, act: Act::Mutate { part: 0, m } },
            1 => Fault { kind: EnvKind::Upload, rep, ap: 0, from: CLIENT, to: j, round: 0, at_source: false, act: Act::Mutate { part: 0, m } },
            2 | 3 => Fault { kind: EnvKind::Upload, rep, ap: 0, from: CLIENT, to: if rng.chance(1, 2) { 0 } else { j }, round: 0, at_source: false, act: Act::Mutate { part: 1, m } },
            4 => Fault { kind: EnvKind::VShare, rep, ap, from: j, to: COMBINER, round, at_source: false, act: Act::Mutate { part: 0, m } },
            _ => Fault { kind: EnvKind::VMsg, rep, ap, from: COMBINER, to: j, round, at_source: false, act: Act::Mutate { part: 0, m } },
        };
        p.faults.push(f);
    }
    for _ in 0..rng.below(4) {
        p.store_faults.push(StoreFault { what: rng.pick(&["state", "state", "out", "agg"]).to_string(), node: rng.below(n) as u8, rep: rng.below(k as u64) as u32, ap: rng.below(p.aps.len() as u64) as u32, m: gen_mut_raw(rng) });
    }
    let events = k * p.aps.len() * (3 * n as usize) * rounds as usize + 6;
    for _ in 0..1 + rng.below(3) {
        p.crashes.push(Crash { step: rng.below(events as u64) as u32, node: rng.below(n) as u8, recompute: rng.chance(1, 3) });
    }
    if rng.chance(1, 2) {
        p.choices = (0..events).map(|_| rng.u32()).collect();
    }
    // decoding-parameter skew: the aggregator identifier handed to the share / state decoders is out of range in a way
    // that agrees with a real identifier in its low byte (or is simply large); decoding must give a value or an error
    if rng.chance(1, 10) {
        let nn = p.inst.n;
        p.skew = Some(Skew { what: "id".into(), who: Vec::new(), value: Hx(Vec::new()), ids: (0..nn).collect(), id_offset: *rng.pick(&[256u64, 256, 512, 65_536, 1 << 32, u64::MAX - 255]), object_level: false });
    }
    p
}

const TARGETS: &[&str] = &["field64", "field128", "field255", "fieldprio2", "seed16", "seed32", "pop_agg_param", "pop_agg_param", "pop_agg_param", "pingpong", "pingpong", "idpf_public", "pop_input", "pop_state", "dummy_state", "u8", "u16", "u32", "u64", "items_unit"];

fn gen_plan_d(rng: &mut Rng) -> PlanD {
    let target = *rng.pick(TARGETS);
    let bits = *rng.pick(&[1u32, 2, 3, 4, 5, 7, 8, 9, 16, 17, 64]);
    let mut sample = Vec::new();
    let mut prefixes = Vec::new();
    let mut header = None;
    match target {
        "field64" | "field128" | "field255" | "fieldprio2" | "u8" | "u16" | "u32" | "u64" => {
            let sz = match target {
                "field64" | "u64" => 8,
                "field128" => 16,
                "field255" => 32,
                "fieldprio2" | "u32" => 4,
                "u16" => 2,
                _ => 1,
            };
            sample = match rng.below(5) {
                0 => vec![0; sz],
                1 => vec![0xff; sz],
                2 => {
                    // p - 1, p, p + 1 region for the field targets
                    let p: Vec<u8> = match target {
                        "field64" => crate::model::P64.to_le_bytes()[..8].to_vec(),
                        "field128" => crate::model::P128.to_le_bytes().to_vec(),
                        "fieldprio2" => crate::model::P32.to_le_bytes()[..4].to_vec(),
                        "field255" => {
                            let mut v = vec![0xff; 32];
                            v[0] = 0xed;
                            v[31] = 0x7f;
                            v
                        }
                        _ => vec![0x80; sz],
                    };
                    let mut v = p;
                    match rng.below(3) {
                        0 => v[0] = v[0].wrapping_sub(1),
                        1 => v[0] = v[0].wrapping_add(1),
                        _ => {}
                    }
                    v
                }
                _ => rng.bytes(sz),
            };
        }
        "seed16" => sample = rng.bytes(16),
        "seed32" => sample = rng.bytes(32),
        "pop_agg_param" => {
            let plen = 1 + rng.usize_below(bits as usize);
            prefixes = crate::inst_poplar::gen_prefixes(rng, &[], plen, 6, None);
            if rng.chance(1, 2) {
                header = Some((*rng.pick(&[0u16, 1, 7, 8, 0x7fff, 0xfffe, 0xffff, plen as u16 - 1, plen as u16]), *rng.pick(&[0u32, 1, 2, 0x8000_0000, 0xffff_ffff, prefixes.len() as u32, prefixes.len() as u32 + 1])));
            }
        }
        "pingpong" => {
            let tag = rng.below(3) as u8;
            let l1 = rng.usize_below(40);
            let mut b = vec![tag];
            b.extend_from_slice(&(l1 as u32).to_be_bytes());
            b.extend(rng.bytes(l1));
            if tag == 1 {
                let l2 = rng.usize_below(40);
                b.extend_from_slice(&(l2 as u32).to_be_bytes());
                b.extend(rng.bytes(l2));
            }
            sample = b;
        }
        "idpf_public" | "pop_input" | "pop_state" => {
            // honest sample is produced at execution time from a sharding run seeded by `sample`
            sample = rng.bytes(16 + 16 + 128);
        }
        "dummy_state" => sample = rng.bytes(5),
        "items_unit" => sample = vec![*rng.pick(&[0u8, 0, 1, 3, 255])],
        _ => {}
    }
    let nm = rng.usize_below(4);
    let muts = (0..nm).map(|_| gen_mut_raw(rng)).collect();
    let dec_bits = if matches!(target, "idpf_public" | "pop_input" | "pop_state") && rng.chance(1, 3) {
        Some(*rng.pick(&[0u32, 0, 1, bits.saturating_sub(1), bits + 1, 2 * bits, 4 * bits + 3, 1000]))
    } else {
        None
    };
    PlanD { target: target.to_string(), bits, agg: rng.below(2) as u8, sample: Hx(sample), prefixes, header, muts, sweep: 0, dec_bits }
}

fn apply_raw(b: &mut Vec<u8>, m: &Mutation) {
    match m {
        Mutation::Flip { pos, bit } if !b.is_empty() => {
            let p = *pos as usize % b.len();
            b[p] ^= 1 << (bit % 8);
        }
        Mutation::Set { pos, val } if !b.is_empty() => {
            let p = *pos as usize % b.len();
            b[p] = *val;
        }
        Mutation::Trunc { keep } if !b.is_empty() => {
            let k = *keep as usize % b.len();
            b.truncate(k);
        }
        Mutation::Extend { extra } => b.extend_from_slice(&extra.0),
        Mutation::FieldAdd { elem, delta, .. } if b.len() >= 8 => {
            let cnt = b.len() / 8;
            let e = *elem as usize % cnt;
            let mut w = [0u8; 8];
            w.copy_from_slice(&b[e * 8..e * 8 + 8]);
            let v = u64::from_le_bytes(w).wrapping_add(delta.0 as u64 | 1);
            b[e * 8..e * 8 + 8].copy_from_slice(&v.to_le_bytes());
        }
        Mutation::FieldSet { elem, raw, .. } if !b.is_empty() && !raw.0.is_empty() => {
            let w = raw.0.len().min(b.len()).min(*[8usize, 16, 32].iter().find(|x| **x <= b.len()).unwrap_or(&1));
            let cnt = b.len() / w;
            let e = *elem as usize % cnt.max(1);
            b[e * w..e * w + w].copy_from_slice(&raw.0[..w]);
        }
        _ => {}
    }
}

fn decode_target(ctx: &mut Ctx, p: &PlanD, bytes: &[u8], pop: &crate::inst_poplar::Pop) {
    macro_rules! plain {
        ($t:ty, $label:expr) => {{
            let _ = mon_decode(ctx, $label, bytes, 0, |b| <$t>::get_decoded(b), |v| v.get_encoded(), |v| v.encoded_len());
        }};
    }
    match p.target.as_str() {
        "field64" => plain!(Field64, "Field64"),
        "field128" => plain!(Field128, "Field128"),
        "field255" => plain!(Field255, "Field255"),
        "fieldprio2" => plain!(FieldPrio2, "FieldPrio2"),
        "seed16" => plain!(Seed<16>, "Seed16"),
        "seed32" => plain!(Seed<32>, "Seed32"),
        "u8" => plain!(u8, "u8"),
        "u16" => plain!(u16, "u16"),
        "u32" => plain!(u32, "u32"),
        "u64" => plain!(u64, "u64"),
        "pop_agg_param" => plain!(prio::vdaf::poplar1::Poplar1AggregationParam, "Poplar1AggregationParam"),
        "pingpong" => plain!(PingPongMessage, "PingPongMessage"),
        "dummy_state" => plain!(prio::vdaf::dummy::VerifierState, "dummy::VerifierState"),
        "items_unit" => {
            // a length-prefixed vector of a zero-size decodable type
            let _ = mon_decode(
                ctx,
                "decode_u8_items<()>",
                bytes,
                0,
                |b| {
                    let mut c = std::io::Cursor::new(b);
                    let v: Vec<()> = prio::codec::decode_u8_items(&(), &mut c)?;
                    if c.position() as usize != b.len() {
                        return Err(prio::codec::CodecError::BytesLeftOver(b.len() - c.position() as usize));
                    }
                    Ok(v)
                },
                |v| {
                    let mut out = Vec::new();
                    prio::codec::encode_u8_items(&mut out, &(), v)?;
                    Ok(out)
                },
                |_| None,
            );
        }
        "idpf_public" => {
            let _ = mon_decode(ctx, "Poplar1PublicShare", bytes, 64 * p.bits as usize + 128, |b| prio::vdaf::poplar1::Poplar1PublicShare::get_decoded_with_param(pop, b), |v| v.get_encoded(), |v| v.encoded_len());
        }
        "pop_input" => {
            let _ = mon_decode(ctx, "Poplar1InputShare", bytes, 64 * p.bits as usize + 128, |b| prio::vdaf::poplar1::Poplar1InputShare::<32>::get_decoded_with_param(&(pop, p.agg as usize), b), |v| v.get_encoded(), |v| v.encoded_len());
        }
        "pop_state" => {
            let _ = mon_decode(ctx, "Poplar1VerifierState", bytes, 0, |b| prio::vdaf::poplar1::Poplar1VerifierState::get_decoded_with_param(&(pop, p.agg as usize), b), |v| v.get_encoded(), |v| v.encoded_len());
        }
        _ => {}
    }
}

fn exec_plan_d(p: &PlanD, ctx: &mut Ctx) -> Result<(), String> {
    use prio::vdaf::test_utils::TestVectorClient;
    use prio::vdaf::Aggregator;
    ctx.sig.str("D").str(&p.target).u64(p.bits as u64).u64(p.muts.len() as u64).u64(p.header.is_some() as u64).u64(p.sweep as u64);
    for m in &p.muts {
        ctx.sig.str(&format!("{:?}", std::mem::discriminant(m)));
    }
    ctx.counters.inc(&format!("target.{}", p.target));
    ctx.nontrivial = true;
    let bits = p.bits.max(1) as usize;
    let pop = prio::vdaf::poplar1::Poplar1::new_turboshake128(bits);
    if p.sweep > 0 {
        // every byte string up to `sweep` bytes (a floor under the seeded search)
        let mut n = 0u64;
        for len in 0..=p.sweep as usize {
            let total = 256u64.pow(len as u32);
            for v in 0..total {
                let bytes: Vec<u8> = (0..len).map(|i| (v >> (8 * i)) as u8).collect();
                decode_target(ctx, p, &bytes, &pop);
                n += 1;
                if ctx.failed() {
                    return Ok(());
                }
            }
        }
        ctx.events += n;
        ctx.counters.add("sweep_strings", n);
        return Ok(());
    }
    // honest sample
    let mut bytes: Vec<u8> = match p.target.as_str() {
        "pop_agg_param" => {
            let prefixes: Vec<prio::idpf::IdpfInput> = p.prefixes.iter().map(|s| crate::inst_poplar::str_to_input(s)).collect();
            let ap = prio::vdaf::poplar1::Poplar1AggregationParam::try_from_prefixes(prefixes).map_err(|e| e.to_string())?;
            let Some(b) = mon_encode(ctx, "Poplar1AggregationParam", &ap) else { return Ok(()) };
            b
        }
        "idpf_public" | "pop_input" | "pop_state" => {
            if p.sample.0.len() < 160 {
                return Err("sample too short".into());
            }
            let mut nonce = [0u8; 16];
            nonce.copy_from_slice(&p.sample.0[..16]);
            let input = prio::idpf::IdpfInput::from_bools(&(0..bits).map(|i| (p.sample.0[16 + i % 16] >> (i % 8)) & 1 == 1).collect::<Vec<_>>());
            let (ps, shares) = pop.shard_with_random(b"codec", &input, &nonce, &p.sample.0[32..160]).map_err(|e| e.to_string())?;
            match p.target.as_str() {
                "idpf_public" => mon_encode(ctx, "Poplar1PublicShare", &ps).unwrap_or_default(),
                "pop_input" => mon_encode(ctx, "Poplar1InputShare", &shares[p.agg as usize % 2]).unwrap_or_default(),
                _ => {
                    let plen = 1 + (p.sample.0[0] as usize % bits);
                    let ap = prio::vdaf::poplar1::Poplar1AggregationParam::try_from_prefixes(vec![input.prefix(plen - 1)]).map_err(|e| e.to_string())?;
                    let agg = p.agg as usize % 2;
                    let (st, _) = pop.verify_init(&[7u8; 32], b"codec", agg, &ap, &nonce, &ps, &shares[agg]).map_err(|e| e.to_string())?;
                    mon_encode(ctx, "Poplar1VerifierState", &st).unwrap_or_default()
                }
            }
        }
        _ => p.sample.0.clone(),
    };
    // the untouched honest encoding must decode (round trip) for the structured targets
    let honest = bytes.clone();
    if let Some((lvl, cnt)) = p.header {
        if bytes.len() >= 6 {
            bytes[..2].copy_from_slice(&lvl.to_be_bytes());
            bytes[2..6].copy_from_slice(&cnt.to_be_bytes());
            ctx.counters.inc("fault.header_dictionary");
        }
    }
    for m in &p.muts {
        apply_raw(&mut bytes, m);
        ctx.counters.inc("fault.mutation");
    }
    ctx.trace.str(&p.target).bytes(&bytes);
    ctx.events += 2;
    decode_target(ctx, p, &honest, &pop);
    decode_target(ctx, p, &bytes, &pop);
    if let Some(db) = p.dec_bits {
        // the same byte strings under an instance with another bit length (incl. the zero-bit one)
        let other = prio::vdaf::poplar1::Poplar1::new_turboshake128(db as usize);
        let mut q = p.clone();
        q.bits = db.max(p.bits);
        ctx.fault("decoding_parameter_skew");
        decode_target(ctx, &q, &honest, &other);
        decode_target(ctx, &q, &bytes, &other);
        ctx.events += 2;
    }
    Ok(())
}

fn gen_plan_c(seed: u64, tier: Tier) -> PlanC {
    let mut rng = Rng::new(seed);
    match rng.below(10) {
        0..=4 => PlanC::A { plan: gen_codec_plan_a(&mut rng) },
        5 | 6 => {
            let s = rng.u64();
            let mut plan = crate::checks_b::gen_plan_b(s, tier);
            plan.faults = "all".into();
            // at-rest corruption of stored continuations / verify states
            for _ in 0..rng.below(4) {
                let at = rng.usize_below(plan.steps.len() + 1);
                let st = crate::world_b::Step::CorruptStore { ex: rng.below(3) as u8, party: rng.below(2) as u8, m: gen_mut_raw(&mut rng) };
                plan.steps.insert(at, st);
            }
            PlanC::B { plan }
        }
        _ => PlanC::D { plan: gen_plan_d(&mut rng) },
    }
}

fn exec_plan_c(id: &'static str, accept: &'static [&'static str], plan: &PlanC, counters: &mut Counters) -> Result<RunOut, String> {
    match plan {
        PlanC::A { plan } => exec_plan_a(id, accept, plan, counters),
        PlanC::B { plan } => crate::checks_b::exec_plan_b_with(plan, counters, accept),
        PlanC::D { plan } => {
            let r = guard_run(|| {
                let mut ctx = Ctx::new(counters, accept);
                let r = exec_plan_d(plan, &mut ctx);
                r.map(|_| ctx.finish())
            });
            match r {
                Ok(x) => x,
                Err(e) => Err(e),
            }
        }
    }
}

impl Check for CheckCodec {
    fn id(&self) -> &'static str {
        self.id
    }
    fn level(&self) -> &'static str {
        if self.id == "C08" {
            "fault_enumeration"
        } else {
            "exploration"
        }
    }
    fn runs(&self, tier: Tier) -> u64 {
        std::env::var("VERIF_RUNS").ok().and_then(|s| s.parse().ok()).unwrap_or(match tier {
            Tier::Quick => 60_000,
            Tier::Thorough => 2_000_000,
        })
    }
    fn gen(&self, seed: u64, _run: u64, tier: Tier) -> Value {
        serde_json::to_value(gen_plan_c(seed, tier)).unwrap()
    }
    fn exec(&self, plan: &Value, counters: &mut Counters) -> Result<RunOut, String> {
        let p: PlanC = serde_json::from_value(plan.clone()).map_err(|e| e.to_string())?;
        exec_plan_c(self.id, self.accept, &p, counters)
    }
    fn gen_exec(&self, seed: u64, _run: u64, tier: Tier, counters: &mut Counters) -> Result<(RunOut, Option<Value>), String> {
        let p = gen_plan_c(seed, tier);
        let out = exec_plan_c(self.id, self.accept, &p, counters)?;
        let keep = out.violation.is_some();
        Ok((out, if keep { Some(serde_json::to_value(&p).unwrap()) } else { None }))
    }
    fn fixed_plans(&self, tier: Tier) -> Vec<Value> {
        // short-string sweeps for the context-free decoders, plus a header dictionary for the
        // aggregation parameter
        let mut out = Vec::new();
        let upto = if tier == Tier::Thorough { 3 } else { 2 };
        for t in ["pop_agg_param", "pingpong", "field64", "fieldprio2", "dummy_state", "u16"] {
            let p = PlanD { target: t.to_string(), bits: 8, agg: 0, sample: Hx(vec![]), prefixes: vec![], header: None, muts: vec![], sweep: if t == "pingpong" || t == "pop_agg_param" { upto } else { 2 }, dec_bits: None };
            out.push(serde_json::to_value(PlanC::D { plan: p }).unwrap());
        }
        for lvl in [0u16, 1, 6, 7, 8, 0x7fff, 0xfffe, 0xffff] {
            for cnt in [0u32, 1, 2, 3, 0x8000_0000, 0xffff_ffff] {
                let p = PlanD { target: "pop_agg_param".into(), bits: 8, agg: 0, sample: Hx(vec![]), prefixes: vec!["0010".into(), "0111".into()], header: Some((lvl, cnt)), muts: vec![], sweep: 0, dec_bits: None };
                out.push(serde_json::to_value(PlanC::D { plan: p }).unwrap());
                // header followed by exactly one/two prefix bytes of the implied length
                let plen = (lvl as usize + 1).div_ceil(8);
                for k in [1usize, 2] {
                    let mut bytes = lvl.to_be_bytes().to_vec();
                    bytes.extend_from_slice(&cnt.to_be_bytes());
                    for i in 0..k {
                        let mut pre = vec![0u8; plen];
                        pre[0] = (i as u8) << 7;
                        bytes.extend(pre);
                    }
                    let p = PlanD { target: "pop_agg_param_raw".into(), bits: 8, agg: 0, sample: Hx(bytes), prefixes: vec![], header: None, muts: vec![], sweep: 0, dec_bits: None };
                    let mut p = p;
                    p.target = "pop_agg_param".into();
                    p.prefixes = vec!["0".into()];
                    p.muts = vec![Mutation::Trunc { keep: 0 }, Mutation::Extend { extra: p.sample.clone() }];
                    out.push(serde_json::to_value(PlanC::D { plan: p }).unwrap());
                }
            }
        }
        out
    }
    fn shrink(&self, plan: &Value) -> Vec<Value> {
        let Ok(p) = serde_json::from_value::<PlanC>(plan.clone()) else { return Vec::new() };
        match p {
            PlanC::A { plan } => {
                let mut v: Vec<PlanA> = crate::checks_a::shrink_plan_a(&plan);
                for i in 0..plan.store_faults.len() {
                    let mut q = plan.clone();
                    q.store_faults.remove(i);
                    v.push(q);
                }
                v.into_iter().map(|x| serde_json::to_value(PlanC::A { plan: x }).unwrap()).collect()
            }
            PlanC::B { plan } => {
                let mut out = Vec::new();
                for i in 0..plan.steps.len() {
                    let mut q = plan.clone();
                    q.steps.remove(i);
                    out.push(serde_json::to_value(PlanC::B { plan: q }).unwrap());
                }
                out
            }
            PlanC::D { plan } => {
                let mut out = Vec::new();
                for i in 0..plan.muts.len() {
                    let mut q = plan.clone();
                    q.muts.remove(i);
                    out.push(serde_json::to_value(PlanC::D { plan: q }).unwrap());
                }
                if plan.header.is_some() {
                    let mut q = plan.clone();
                    q.header = None;
                    out.push(serde_json::to_value(PlanC::D { plan: q }).unwrap());
                }
                out
            }
        }
    }
    fn rule(&self) -> String {
        let common = "three sub-worlds per run: (A) world-A runs for Prio3 / Poplar1 / Prio2 with 0..4 in-flight alterations of every message class, 0..3 corruptions of stored verify state / output shares / aggregate shares and 1..3 crash-restarts; (B) ping-pong exchanges with all frame and payload faults; (D) direct delivery of honest and mutated encodings to context-free decoders (fields, seeds, integers, Poplar1 aggregation parameter with a header dictionary, ping-pong frames, IDPF public share, Poplar1 input share and verify state, dummy state) plus fixed short-string sweeps; distinct = distinct (sub-world, class/target, fault sequence, outcome) signatures";
        if self.id == "C07" {
            format!("wire monitor: encoded_len exact; decode(encode(v)) equal; every accepted byte string re-encodes to itself. {common}")
        } else {
            format!("decode monitor: every decode call returns Ok or Err (no panic; abort/hang contained by worker processes) and allocates <= 4096*(|bytes|+parameter-implied size)+1MiB. {common}")
        }
    }
    fn assumptions(&self) -> Vec<String> {
        vec![
            "allocation is observed by a counting global allocator in the simulator process; instance-derived sizes (input length, bits, prefix count of the decoding parameter) are legitimate".into(),
            "the accepted-but-non-honest strings are those the fault injector produces; coverage of the byte-string space is by seeded mutation plus short-string sweeps, not exhaustive".into(),
        ]
    }
    fn components(&self) -> Value {
        json!({"real": ["all Encode / Decode / ParameterizedDecode impls reached through the protocols", "PingPongMessage / PingPongContinuation codecs", "field, seed and integer codecs"], "stub": ["transport, store and fault injector", "harness frame parser used to cross-check PingPongMessage"]})
    }
}
