//! SimXof: a wrapping XOF (public `Xof<32>` trait) over XofTurboShake128 that
//!  * re-chunks every `init` dst part, every `update` and every `fill_bytes` into tape-chosen pieces,
//!  * records every stream it hands out, keyed by the usage field of the domain-separation tag,
//!  * optionally replaces the stream of ONE chosen usage by scripted bytes (for all parties).
//! Also ScriptRng: a byte-script `Rng` that counts how many bytes each request consumed.

use prio::vdaf::xof::{Xof, XofTurboShake128};
use rand_core::{utils::next_word_via_fill, Rng, TryRng};
use std::cell::RefCell;
use std::convert::Infallible;

#[derive(Default, Clone)]
pub struct XofCfg {
    pub tape: Vec<u32>,
    pub cursor: usize,
    /// (usage, bytes): streams whose dst usage equals `usage` yield these bytes (then zeros)
    pub script: Option<(u16, Vec<u8>)>,
    /// (usage, insertions): streams with this dst usage get extra bytes spliced in at the given
    /// output offsets (sorted); the real stream continues around them, identically for every party
    pub inject: Option<(u16, Vec<(usize, Vec<u8>)>)>,
    /// (usage, seed, bytes handed out)
    pub record: Vec<(u16, Vec<u8>)>,
    pub recording: bool,
    pub inits: u64,
    pub pieces: u64,
}

thread_local! {
    pub static CFG: RefCell<XofCfg> = RefCell::new(XofCfg::default());
}

pub fn install(cfg: XofCfg) {
    CFG.with(|c| *c.borrow_mut() = cfg);
}
pub fn take() -> XofCfg {
    CFG.with(|c| std::mem::take(&mut *c.borrow_mut()))
}

fn draw() -> u32 {
    CFG.with(|c| {
        let mut c = c.borrow_mut();
        if c.tape.is_empty() {
            return 0;
        }
        let v = c.tape[c.cursor % c.tape.len()];
        c.cursor += 1;
        v
    })
}

/// Split `len` into pieces: sizes from the tape, biased to boundary sizes. Empty tape = one piece.
fn pieces(len: usize) -> Vec<usize> {
    let has_tape = CFG.with(|c| !c.borrow().tape.is_empty());
    if !has_tape || len == 0 {
        return vec![len];
    }
    const SIZES: [usize; 12] = [0, 1, 1, 2, 15, 16, 17, 31, 32, 33, 167, 169];
    let mut out = Vec::new();
    let mut rest = len;
    while rest > 0 {
        let d = draw();
        let s = if d & 1 == 0 { SIZES[(d >> 1) as usize % SIZES.len()] } else { 1 + (d >> 1) as usize % rest };
        let s = s.min(rest);
        out.push(s);
        rest -= s;
        if out.len() > 4096 {
            out.push(rest);
            break;
        }
    }
    CFG.with(|c| c.borrow_mut().pieces += out.len() as u64);
    out
}

#[derive(Clone, Debug)]
pub struct SimXof {
    inner: XofTurboShake128,
    usage: u16,
}

pub struct SimStream {
    inner: <XofTurboShake128 as Xof<32>>::SeedStream,
    usage: u16,
    scripted: Option<(Vec<u8>, usize)>,
    /// pending insertions (output offset, bytes) and the output position reached
    inject: Vec<(usize, Vec<u8>)>,
    out_pos: usize,
    rec: Option<usize>,
}

impl Xof<32> for SimXof {
    type SeedStream = SimStream;

    fn init(seed: &[u8; 32], dst_parts: &[&[u8]]) -> Self {
        let dst: Vec<u8> = dst_parts.iter().flat_map(|p| p.iter().copied()).collect();
        let usage = if dst.len() >= 8 { u16::from_be_bytes([dst[6], dst[7]]) } else { 0 };
        // re-split the concatenated dst
        let ps = pieces(dst.len());
        let mut parts: Vec<&[u8]> = Vec::new();
        let mut off = 0;
        for p in ps {
            parts.push(&dst[off..off + p]);
            off += p;
        }
        CFG.with(|c| c.borrow_mut().inits += 1);
        SimXof { inner: XofTurboShake128::init(seed, &parts), usage }
    }

    fn update(&mut self, part: &[u8]) {
        let mut off = 0;
        for p in pieces(part.len()) {
            self.inner.update(&part[off..off + p]);
            off += p;
        }
    }

    fn into_seed_stream(self) -> SimStream {
        let (scripted, rec, inject) = CFG.with(|c| {
            let mut c = c.borrow_mut();
            let scripted = match &c.script {
                Some((u, b)) if *u == self.usage => Some((b.clone(), 0)),
                _ => None,
            };
            let inject = match &c.inject {
                Some((u, v)) if *u == self.usage => v.clone(),
                _ => Vec::new(),
            };
            let rec = if c.recording {
                c.record.push((self.usage, Vec::new()));
                Some(c.record.len() - 1)
            } else {
                None
            };
            (scripted, rec, inject)
        });
        SimStream { inner: self.inner.into_seed_stream(), usage: self.usage, scripted, inject, out_pos: 0, rec }
    }
}

impl TryRng for SimStream {
    type Error = Infallible;
    fn try_fill_bytes(&mut self, dest: &mut [u8]) -> Result<(), Infallible> {
        if let Some((script, pos)) = self.scripted.as_mut() {
            // keep the real stream in step (so un-scripted consumers after us are unaffected)
            let mut sink = vec![0u8; dest.len()];
            self.inner.fill_bytes(&mut sink);
            for b in dest.iter_mut() {
                *b = script.get(*pos).copied().unwrap_or(0);
                *pos += 1;
            }
        } else if !self.inject.is_empty() {
            // byte by byte around the insertion points (streams with insertions are short)
            for b in dest.iter_mut() {
                let mut taken = false;
                if let Some((off, bytes)) = self.inject.first_mut() {
                    if self.out_pos >= *off && !bytes.is_empty() {
                        *b = bytes.remove(0);
                        taken = true;
                    }
                }
                if let Some((_, bytes)) = self.inject.first() {
                    if bytes.is_empty() {
                        self.inject.remove(0);
                    }
                }
                if !taken {
                    let mut one = [0u8; 1];
                    self.inner.fill_bytes(&mut one);
                    *b = one[0];
                }
                self.out_pos += 1;
            }
        } else {
            let mut off = 0;
            for p in pieces(dest.len()) {
                self.inner.fill_bytes(&mut dest[off..off + p]);
                off += p;
            }
        }
        if let Some(i) = self.rec {
            CFG.with(|c| {
                if let Some(r) = c.borrow_mut().record.get_mut(i) {
                    if r.1.len() < (1 << 22) {
                        r.1.extend_from_slice(dest);
                    }
                }
            });
        }
        let _ = self.usage;
        Ok(())
    }
    fn try_next_u32(&mut self) -> Result<u32, Infallible> {
        next_word_via_fill(self)
    }
    fn try_next_u64(&mut self) -> Result<u64, Infallible> {
        next_word_via_fill(self)
    }
}

/// A scripted byte stream; after the script ends it yields `tail` bytes forever.
pub struct ScriptRng {
    pub script: Vec<u8>,
    pub pos: usize,
    pub tail: u8,
    /// sizes of the successive fill requests
    pub requests: Vec<usize>,
}

impl ScriptRng {
    pub fn new(script: Vec<u8>, tail: u8) -> Self {
        ScriptRng { script, pos: 0, tail, requests: Vec::new() }
    }
}

impl TryRng for ScriptRng {
    type Error = Infallible;
    fn try_fill_bytes(&mut self, dest: &mut [u8]) -> Result<(), Infallible> {
        if self.requests.len() < 100_000 {
            self.requests.push(dest.len());
        }
        for b in dest.iter_mut() {
            *b = self.script.get(self.pos).copied().unwrap_or(self.tail);
            self.pos += 1;
        }
        Ok(())
    }
    fn try_next_u32(&mut self) -> Result<u32, Infallible> {
        next_word_via_fill(self)
    }
    fn try_next_u64(&mut self) -> Result<u64, Infallible> {
        next_word_via_fill(self)
    }
}
