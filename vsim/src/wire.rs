//! Wire monitor (C07) and decode monitor (C08): every byte string that crosses the simulated
//! transport or enters the durable store goes through these.

use crate::alloc;
use crate::core::{guard, Ctx, Violation};
use prio::codec::{CodecError, Encode};

/// Allocation allowed for decoding `len` bytes with a decoding parameter implying `param` bytes.
/// 64 x (bytes presented + size the decoding PARAMETER implies) + 64 KiB. Honest decoders stay far
/// below it (they allocate a small multiple of what they consume); a count taken from the wire and
/// trusted for pre-allocation exceeds it as soon as it is a few thousand elements off.
pub fn alloc_bound(len: usize, param: usize) -> u64 {
    64u64 * (len as u64 + param as u64) + (1 << 16)
}

/// Decode through the monitors. `reenc` re-encodes an accepted value; `hint` is its advertised length.
pub fn mon_decode<T>(
    ctx: &mut Ctx,
    label: &str,
    bytes: &[u8],
    param: usize,
    dec: impl FnOnce(&[u8]) -> Result<T, CodecError>,
    reenc: impl Fn(&T) -> Result<Vec<u8>, CodecError>,
    hint: impl Fn(&T) -> Option<usize>,
) -> Option<T> {
    let m = alloc::mark();
    let r = guard(label, || dec(bytes));
    let (total, largest) = alloc::since(m);
    let bound = alloc_bound(bytes.len(), param);
    if total > bound || largest > bound {
        ctx.fail(Violation::new(
            "C08.alloc",
            format!("{label}|alloc"),
            format!("decoding {} bytes with `{label}` allocated {total} bytes (largest request {largest}); bound {bound}", bytes.len()),
        ));
    }
    match r {
        Err(mut v) => {
            v.oracle = "C08.panic".into();
            ctx.fail(v);
            None
        }
        Ok(Err(_)) => {
            ctx.counters.inc(&format!("decode_err.{label}"));
            None
        }
        Ok(Ok(v)) => {
            ctx.counters.inc(&format!("decode_ok.{label}"));
            match guard(label, || reenc(&v)) {
                Ok(Ok(re)) => {
                    if re != bytes {
                        ctx.fail(Violation::new(
                            "C07.noncanonical",
                            format!("{label}|noncanonical"),
                            format!("`{label}` accepted {} bytes that re-encode to {} different bytes: in={} out={}", bytes.len(), re.len(), crate::util::hex(&bytes[..bytes.len().min(96)]), crate::util::hex(&re[..re.len().min(96)])),
                        ));
                    }
                    if let Some(h) = hint(&v) {
                        if h != re.len() {
                            ctx.fail(Violation::new("C07.len", format!("{label}|len"), format!("`{label}`: encoded_len() = {h} but encoding has {} bytes", re.len())));
                        }
                    }
                }
                Ok(Err(e)) => ctx.fail(Violation::new("C07.reencode_err", format!("{label}|reencode_err"), format!("`{label}`: accepted value fails to encode: {e}"))),
                Err(mut pv) => {
                    pv.oracle = "C07.panic".into();
                    ctx.fail(pv);
                }
            }
            Some(v)
        }
    }
}

/// Encode through the wire monitor (length hint must be exact).
pub fn mon_encode<T: Encode>(ctx: &mut Ctx, label: &str, v: &T) -> Option<Vec<u8>> {
    match guard(label, || (v.get_encoded(), v.encoded_len())) {
        Ok((Ok(b), hint)) => {
            if let Some(h) = hint {
                if h != b.len() {
                    ctx.fail(Violation::new("C07.len", format!("{label}|len"), format!("`{label}`: encoded_len() = {h} but get_encoded() produced {} bytes", b.len())));
                }
            }
            ctx.counters.inc(&format!("encode.{label}"));
            Some(b)
        }
        Ok((Err(e), _)) => {
            ctx.fail(Violation::new("C07.encode_err", format!("{label}|encode_err"), format!("`{label}`: honest value fails to encode: {e}")));
            None
        }
        Err(mut pv) => {
            pv.oracle = "C07.panic".into();
            ctx.fail(pv);
            None
        }
    }
}
