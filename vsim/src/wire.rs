//! Wire monitor (C07) and decode monitor (C08): every byte string that crosses the simulated
//! transport or enters the durable store goes through these.

use crate::alloc;
use crate::core::{guard, Ctx, Violation};
use prio::codec::{CodecError, Encode};

/// Allocation allowed for decoding `len` bytes with a decoding parameter implying `param` bytes.
/// 64 x (bytes presented + size the decoding PARAMETER implies) + 64 KiB. Honest decoders stay far
/// below it (they allocate a small multiple of what they consume); a count taken from the wire and
/// trusted for pre-allocation exceeds it as soon as it is a few thousand elements off.
pub fn alloc_bound(len: usize, param: usize) -> u64 {
    64u64 * (len as u64 + param as u64) + (1 << 16)
}

/// Decode through the monitors. `reenc` re-encodes an accepted value; `hint` is its advertised length.
pub fn mon_decode<T>(
    ctx: &mut Ctx,
    label: &str,
    bytes: &[u8],
    param: usize,
    dec: impl Fn(&[u8]) -> Result<T, CodecError>,
    reenc: impl Fn(&T) -> Result<Vec<u8>, CodecError>,
    hint: impl Fn(&T) -> Option<usize>,
) -> Option<T> {
    let m = alloc::mark();
    let r = guard(label, || dec(bytes));
    let (total, largest) = alloc::since(m);
    let bound = alloc_bound(bytes.len(), param);
    if total > bound || largest > bound {
        ctx.fail(Violation::new(
            "C08.alloc",
            format!("{label}|alloc"),
            format!("decoding {} bytes with `{label}` allocated {total} bytes (largest request {largest}); bound {bound}", bytes.len()),
        ));
    }
    match r {
        Err(mut v) => {
            v.oracle = "C08.panic".into();
            ctx.fail(v);
            None
        }
        Ok(Err(_)) => {
            ctx.counters.inc(&format!("decode_err.{label}"));
            None
        }
        Ok(Ok(v)) => {
            ctx.counters.inc(&format!("decode_ok.{label}"));
            // embedding: followed by other bytes, the decoder must stop at the end of its own
            // encoding (how composite messages use it): exactly the surplus is left over
            {
                let extra = 1 + bytes.len() % 3;
                let mut ext = bytes.to_vec();
                ext.extend(std::iter::repeat(0x5au8 ^ (bytes.len() as u8)).take(extra));
                match guard(label, || dec(&ext)) {
                    Ok(Err(CodecError::BytesLeftOver(k))) if k == extra => ctx.counters.inc("c07.embedding_checked"),
                    Ok(other) => {
                        let what = match other {
                            Ok(_) => "accepted the longer string".to_string(),
                            Err(e) => format!("answered `{e}`"),
                        };
                        ctx.fail(Violation::new(
                            "C07.exact_length",
                            format!("{label}|embedding"),
                            format!("`{label}` accepted {} bytes, but followed by {extra} more bytes it {what} instead of leaving exactly {extra} bytes over", bytes.len()),
                        ));
                    }
                    Err(mut pv) => {
                        pv.oracle = "C08.panic".into();
                        ctx.fail(pv);
                    }
                }
            }
            match guard(label, || reenc(&v)) {
                Ok(Ok(re)) => {
                    if re != bytes {
                        ctx.fail(Violation::new(
                            "C07.noncanonical",
                            format!("{label}|noncanonical"),
                            format!("`{label}` accepted {} bytes that re-encode to {} different bytes: in={} out={}", bytes.len(), re.len(), crate::util::hex(&bytes[..bytes.len().min(96)]), crate::util::hex(&re[..re.len().min(96)])),
                        ));
                    }
                    if let Some(h) = hint(&v) {
                        if h != re.len() {
                            ctx.fail(Violation::new("C07.len", format!("{label}|len"), format!("`{label}`: encoded_len() = {h} but encoding has {} bytes", re.len())));
                        }
                    }
                }
                Ok(Err(e)) => ctx.fail(Violation::new("C07.reencode_err", format!("{label}|reencode_err"), format!("`{label}`: accepted value fails to encode: {e}"))),
                Err(mut pv) => {
                    pv.oracle = "C07.panic".into();
                    ctx.fail(pv);
                }
            }
            Some(v)
        }
    }
}

/// Encode through the wire monitor (length hint must be exact).
pub fn mon_encode<T: Encode>(ctx: &mut Ctx, label: &str, v: &T) -> Option<Vec<u8>> {
    match guard(label, || (v.get_encoded(), v.encoded_len())) {
        Ok((Ok(b), hint)) => {
            if let Some(h) = hint {
                if h != b.len() {
                    ctx.fail(Violation::new("C07.len", format!("{label}|len"), format!("`{label}`: encoded_len() = {h} but get_encoded() produced {} bytes", b.len())));
                }
            }
            ctx.counters.inc(&format!("encode.{label}"));
            // appending: encoding into a buffer that already holds bytes appends exactly the same
            // encoding and leaves the earlier bytes alone
            let pre: Vec<u8> = vec![0xc3, 0x00, 0xff, b.len() as u8];
            let mut buf = pre.clone();
            match guard(label, || v.encode(&mut buf)) {
                Ok(Ok(())) => {
                    if buf.len() != pre.len() + b.len() || buf[..pre.len()] != pre[..] || buf[pre.len()..] != b[..] {
                        ctx.fail(Violation::new("C07.append", format!("{label}|append"), format!("`{label}`: encode() into a non-empty buffer does not append the encoding get_encoded() returns ({} bytes before, {} after, encoding {} bytes)", pre.len(), buf.len(), b.len())));
                    }
                }
                Ok(Err(e)) => ctx.fail(Violation::new("C07.encode_err", format!("{label}|encode_err_append"), format!("`{label}`: encode() into a non-empty buffer fails: {e}"))),
                Err(mut pv) => {
                    pv.oracle = "C07.panic".into();
                    ctx.fail(pv);
                }
            }
            Some(b)
        }
        Ok((Err(e), _)) => {
            ctx.fail(Violation::new("C07.encode_err", format!("{label}|encode_err"), format!("`{label}`: honest value fails to encode: {e}")));
            None
        }
        Err(mut pv) => {
            pv.oracle = "C07.panic".into();
            ctx.fail(pv);
            None
        }
    }
}

/// Decoding of bytes the library itself just produced for an honest value: a failure is the
/// codec's (C07), never a harness error. Returns None after recording the violation.
pub fn honest_decode<T>(ctx: &mut Ctx, label: &str, r: Result<T, CodecError>) -> Option<T> {
    match r {
        Ok(v) => Some(v),
        Err(e) => {
            ctx.counters.inc("honest_bytes_undecodable");
            ctx.fail(Violation::new("C07.roundtrip", format!("{label}|honest_undecodable"), format!("`{label}`: the encoding the library produced for an honest value does not decode: {e}")));
            None
        }
    }
}
