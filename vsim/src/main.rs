mod alloc;
mod checks_a;
mod checks_b;
mod checks_c05;
mod checks_c06;
mod checks_c11;
mod checks_c14;
mod checks_c16;
mod checks_c20;
mod checks_codec;
mod checks_prio2;
mod checks_twin;
mod core;
mod driver;
mod inst;
mod inst_poplar;
mod inst_prio2;
mod model;
mod rng;
mod sim_xof;
mod trace_vdaf;
mod util;
mod wire;
mod world_a;
mod world_b;

use crate::core::{Check, Tier};

#[global_allocator]
static GLOBAL: alloc::Counting = alloc::Counting;

fn registry() -> Vec<Box<dyn Check>> {
    let mut v: Vec<Box<dyn Check>> = Vec::new();
    v.extend(checks_a::checks());
    v.extend(checks_b::checks());
    v.extend(checks_codec::checks());
    v.extend(checks_c20::checks());
    v.extend(checks_c14::checks());
    v.extend(checks_c11::checks());
    v.extend(checks_c05::checks());
    v.extend(checks_c16::checks());
    v.extend(checks_c06::checks());
    v.extend(checks_prio2::checks());
    v.extend(checks_twin::checks());
    v
}

fn find<'a>(reg: &'a [Box<dyn Check>], id: &str) -> Option<&'a dyn Check> {
    reg.iter().find(|c| c.id() == id).map(|b| b.as_ref())
}

fn usage() -> ! {
    eprintln!("usage: vsim check <ID> <quick|thorough> | replay <ID> <file> | selftest [<ID>] | worker ... | exec-plan <ID> | gen <ID> <run>");
    std::process::exit(2)
}

fn main() {
    let args: Vec<String> = std::env::args().collect();
    if args.len() < 2 {
        usage();
    }
    let reg = registry();
    let seed: u64 = std::env::var("VERIF_SEED").ok().and_then(|s| s.parse().ok()).unwrap_or(1);
    let workers: u64 = std::env::var("VERIF_WORKERS").ok().and_then(|s| s.parse().ok()).unwrap_or(16);
    let code = match args[1].as_str() {
        "check" => {
            if args.len() < 4 {
                usage();
            }
            let Some(c) = find(&reg, &args[2]) else {
                eprintln!("HARNESS-ERROR: unknown property {}", args[2]);
                std::process::exit(2)
            };
            let Some(tier) = Tier::parse(&args[3]) else { usage() };
            driver::check_main(c, tier, seed, workers)
        }
        "replay" => {
            if args.len() < 4 {
                usage();
            }
            let Some(c) = find(&reg, &args[2]) else { usage() };
            driver::replay_main(c, &args[3])
        }
        "worker" => {
            if args.len() < 9 {
                usage();
            }
            let Some(c) = find(&reg, &args[2]) else { usage() };
            let tier = Tier::parse(&args[3]).unwrap();
            let p = |i: usize| args[i].parse::<u64>().unwrap();
            let dump = args.iter().any(|a| a == "--dump");
            driver::worker_main(c, tier, p(4), p(5), p(6), p(7), p(8), dump)
        }
        "exec-plan" => {
            let Some(c) = find(&reg, &args[2]) else { usage() };
            driver::exec_plan_main(c)
        }
        "gen" => {
            let Some(c) = find(&reg, &args[2]) else { usage() };
            let run: u64 = args[3].parse().unwrap();
            let tier = args.get(4).and_then(|s| Tier::parse(s)).unwrap_or(Tier::Quick);
            let plan = c.gen(rng::run_seed(seed, c.id(), run), run, tier);
            println!("{}", serde_json::to_string_pretty(&plan).unwrap());
            0
        }
        "selftest" => {
            let runs: u64 = std::env::var("VERIF_SELFTEST_RUNS").ok().and_then(|s| s.parse().ok()).unwrap_or(2000);
            let mut code = 0;
            for c in reg.iter() {
                if args.len() > 2 && args[2] != c.id() {
                    continue;
                }
                let r = driver::selftest(c.as_ref(), seed, runs);
                if r != 0 {
                    code = r;
                }
            }
            code
        }
        "list" => {
            for c in reg.iter() {
                println!("{}", c.id());
            }
            0
        }
        _ => usage(),
    };
    std::process::exit(code)
}
