//! C12: ping-pong topology under replay / re-type / corruption / restart (world B).

use crate::core::*;
use crate::inst::{dispatch, Adapter, BuildErr, Inst, SimVdaf, Visitor};
use crate::model;
use crate::rng::Rng;
use crate::trace_vdaf::*;
use crate::util::{Counters, Hx, N};
use crate::world_a::Mutation;
use crate::world_b::*;
use prio::codec::{CodecError, Decode, Encode, ParameterizedDecode};
use prio::topology::ping_pong::PingPongContinuation;
use prio::vdaf::dummy;
use serde_json::{json, Value};

impl SimVdaf<16> for TraceVdaf {
    fn enc_state(s: &TState) -> Result<Vec<u8>, CodecError> {
        s.get_encoded()
    }
    fn state_len_hint(s: &TState) -> Option<usize> {
        s.encoded_len()
    }
    fn dec_state(&self, agg_id: usize, b: &[u8]) -> Result<TState, CodecError> {
        TState::get_decoded_with_param(&(self, agg_id), b)
    }
    fn enc_cont(c: &PingPongContinuation<16, 16, Self>) -> Result<Vec<u8>, CodecError> {
        c.get_encoded()
    }
    fn cont_len_hint(c: &PingPongContinuation<16, 16, Self>) -> Option<usize> {
        c.encoded_len()
    }
    fn dec_cont(&self, agg_id: usize, b: &[u8]) -> Result<PingPongContinuation<16, 16, Self>, CodecError> {
        PingPongContinuation::get_decoded_with_param(&(self, agg_id), b)
    }
}

impl SimVdaf<0> for dummy::Vdaf {
    fn enc_state(s: &dummy::VerifierState) -> Result<Vec<u8>, CodecError> {
        s.get_encoded()
    }
    fn state_len_hint(s: &dummy::VerifierState) -> Option<usize> {
        s.encoded_len()
    }
    fn dec_state(&self, _agg_id: usize, b: &[u8]) -> Result<dummy::VerifierState, CodecError> {
        dummy::VerifierState::get_decoded(b)
    }
    fn enc_cont(c: &PingPongContinuation<0, 16, Self>) -> Result<Vec<u8>, CodecError> {
        c.get_encoded()
    }
    fn cont_len_hint(c: &PingPongContinuation<0, 16, Self>) -> Option<usize> {
        c.encoded_len()
    }
    fn dec_cont(&self, _agg_id: usize, b: &[u8]) -> Result<PingPongContinuation<0, 16, Self>, CodecError> {
        PingPongContinuation::get_decoded_with_param(&(), b)
    }
}

pub struct CheckB;

pub fn checks() -> Vec<Box<dyn Check>> {
    vec![Box::new(CheckB)]
}

const ACCEPT: &[&str] = &["C12.", "panic"];

thread_local! {
    static ACCEPT_OVERRIDE: std::cell::Cell<Option<&'static [&'static str]>> = const { std::cell::Cell::new(None) };
}
fn accept() -> &'static [&'static str] {
    ACCEPT_OVERRIDE.with(|a| a.get()).unwrap_or(ACCEPT)
}

/// Run a ping-pong plan reporting only the oracles in `accept` (used by the codec checks).
pub fn exec_plan_b_with(plan: &PlanB, counters: &mut Counters, acc: &'static [&'static str]) -> Result<RunOut, String> {
    ACCEPT_OVERRIDE.with(|a| a.set(Some(acc)));
    let r = exec_plan_b(plan, counters);
    ACCEPT_OVERRIDE.with(|a| a.set(None));
    r
}

fn gen_frame_mut(rng: &mut Rng, listed_only: bool) -> FrameMut {
    let lenmut = |rng: &mut Rng| -> Mutation {
        if rng.chance(1, 2) {
            Mutation::Trunc { keep: rng.u32() }
        } else {
            let n = 1 + rng.usize_below(9);
            Mutation::Extend { extra: Hx(rng.bytes(n)) }
        }
    };
    if listed_only {
        match rng.below(6) {
            0 | 1 => FrameMut::Retype { tag: *rng.pick(&[0u8, 1, 2, 2, 0, 3, 255]) },
            2 => FrameMut::SwapFields,
            3 => FrameMut::Payload { field: rng.below(2) as u8, m: lenmut(rng) },
            4 => FrameMut::Raw { m: lenmut(rng) },
            _ => FrameMut::Len { field: rng.below(2) as u8, val: *rng.pick(&[0u32, 1, 0x7fff_ffff, 0xffff_ffff, 17, 18, 33, 34]) },
        }
    } else {
        let anymut = |rng: &mut Rng| -> Mutation {
            match rng.below(5) {
                0 => Mutation::Flip { pos: rng.u32(), bit: rng.below(8) as u8 },
                1 => Mutation::Set { pos: rng.u32(), val: rng.below(256) as u8 },
                2 => Mutation::FieldAdd { region: 0, elem: rng.u32(), delta: N(rng.u64() as u128) },
                3 => Mutation::FieldSet { region: 0, elem: rng.u32(), raw: Hx(vec![0xff; 16]) },
                _ => {
                    if rng.chance(1, 2) {
                        Mutation::Trunc { keep: rng.u32() }
                    } else {
                        Mutation::Extend { extra: Hx(vec![0]) }
                    }
                }
            }
        };
        match rng.below(4) {
            0 => FrameMut::Payload { field: rng.below(2) as u8, m: anymut(rng) },
            1 => FrameMut::Raw { m: anymut(rng) },
            _ => gen_frame_mut(rng, true),
        }
    }
}

pub fn gen_plan_b(seed: u64, tier: Tier) -> PlanB {
    let mut rng = Rng::new(seed);
    let rng = &mut rng;
    let kind = *rng.pick(&["trace", "trace", "trace", "dummy", "prio3", "prio3", "poplar1"]);
    let rounds = 1 + rng.below(6) as u8;
    let inst = match kind {
        "prio3" => {
            let mut i = crate::inst::gen_prio3_inst(rng, true, false);
            i.n = 2;
            Some(i)
        }
        "poplar1" => Some(crate::inst_poplar::gen_poplar_inst(rng, false)),
        _ => None,
    };
    let nex = 1 + rng.usize_below(3);
    let mut ap: crate::inst::ApSpec = Vec::new();
    let exchanges: Vec<Exch> = (0..nex)
        .map(|_| {
            let (meas, rand) = match &inst {
                Some(i) => (model::gen_meas(i, rng), rng.bytes(model::rand_len(i))),
                None => (Vec::new(), Vec::new()),
            };
            Exch { nonce: Hx(rng.bytes(16)), rand: Hx(rand), meas, in0: rng.u64(), in1: rng.u64() }
        })
        .collect();
    let mut real_rounds = rounds;
    if let Some(i) = &inst {
        if i.class == "poplar1" {
            ap = crate::inst_poplar::gen_ap_for(rng, i, &exchanges.iter().map(|e| e.meas.clone()).collect::<Vec<_>>());
            real_rounds = 2;
        } else {
            real_rounds = 1;
        }
    }
    let faults = *rng.pick(&["none", "listed", "listed", "all", "all"]);
    let depth = (real_rounds as usize + 1) * (2 + rng.usize_below(5)) * nex / 2 + 2;
    let depth = if tier == Tier::Thorough { depth + rng.usize_below(depth + 1) } else { depth };
    let mut steps = Vec::new();
    for _ in 0..depth {
        let ex = rng.below(nex as u64) as u8;
        let to = rng.below(2) as u8;
        if rng.chance(3, 20) {
            steps.push(Step::Restart { ex, party: to, evals: 1 + rng.below(3) as u8 });
            continue;
        }
        if faults == "none" || rng.chance(11, 20) {
            steps.push(Step::Deliver { ex, to, src: Src::Genuine, frame: None });
            continue;
        }
        let listed = faults == "listed";
        match rng.below(if listed { 2 } else { 3 }) {
            0 => steps.push(Step::Deliver { ex, to, src: Src::Replay { ex2: ex, dir: rng.below(2) as u8, idx: rng.below(8) as u8 }, frame: None }),
            1 => {
                let src = if rng.chance(3, 4) { Src::Genuine } else { Src::Replay { ex2: ex, dir: rng.below(2) as u8, idx: rng.below(8) as u8 } };
                steps.push(Step::Deliver { ex, to, src, frame: Some(gen_frame_mut(rng, listed)) });
            }
            _ => {
                let ex2 = rng.below(nex as u64) as u8;
                steps.push(Step::Deliver { ex, to, src: Src::Replay { ex2, dir: rng.below(2) as u8, idx: rng.below(8) as u8 }, frame: if rng.chance(1, 4) { Some(gen_frame_mut(rng, false)) } else { None } });
            }
        }
    }
    let ctx_len = rng.usize_below(12);
    PlanB { vdaf: kind.to_string(), rounds: real_rounds, inst, ap, ap_byte: rng.below(256) as u8, ctx: Hx(rng.bytes(ctx_len)), vk: Hx(rng.bytes(32)), exchanges, steps, faults: faults.to_string() }
}

struct PpVis<'a> {
    plan: &'a PlanB,
    counters: &'a mut Counters,
}

impl<'a> Visitor for PpVis<'a> {
    type Out = Result<RunOut, String>;
    fn visit<V, A, const VK: usize>(self, vdaf: &V, ad: &A) -> Self::Out
    where
        V: SimVdaf<VK>,
        A: Adapter<V>,
    {
        let plan = self.plan;
        let mut ctx = Ctx::new(self.counters, accept());
        let mut setups = Vec::new();
        for e in &plan.exchanges {
            let mut nonce = [0u8; 16];
            nonce.copy_from_slice(&e.nonce.0);
            let (pb, ib) = match ad.shard(vdaf, &plan.ctx.0, &e.meas, &nonce, &e.rand.0, false) {
                Ok(x) => x,
                Err(_) => {
                    ctx.counters.inc("skipped.honest_shard_failed");
                    return Ok(ctx.finish());
                }
            };
            let Some(public) = crate::wire::honest_decode(&mut ctx, "PublicShare", V::PublicShare::get_decoded_with_param(vdaf, &pb)) else { return Ok(ctx.finish()) };
            let Some(i0) = crate::wire::honest_decode(&mut ctx, "InputShare", V::InputShare::get_decoded_with_param(&(vdaf, 0), &ib[0])) else { return Ok(ctx.finish()) };
            let Some(i1) = crate::wire::honest_decode(&mut ctx, "InputShare", V::InputShare::get_decoded_with_param(&(vdaf, 1), &ib[1])) else { return Ok(ctx.finish()) };
            setups.push(Setup { public, inputs: [i0, i1] });
        }
        let ap = ad.agg_param(&plan.ap)?;
        run_world(vdaf, plan, &mut ctx, setups, ap, true)?;
        Ok(ctx.finish())
    }
}

fn run_world<V: SimVdaf<VK>, const VK: usize>(vdaf: &V, plan: &PlanB, ctx: &mut Ctx, setups: Vec<Setup<V>>, ap: V::AggregationParam, refusals: bool) -> Result<(), String> {
    ctx.sig.str("C12").str(&plan.vdaf).u64(plan.rounds as u64).str(&plan.faults).u64(plan.exchanges.len() as u64);
    if let Some(i) = &plan.inst {
        ctx.sig.str(&i.class);
        ctx.counters.inc(&format!("class.{}", i.class));
    } else {
        ctx.counters.inc(&format!("class.{}{}", plan.vdaf, plan.rounds));
    }
    match WorldB::new(vdaf, plan, ctx, setups, ap, refusals) {
        Ok(w) => w.run(),
        Err(e) if e == "SKIP" => ctx.counters.inc("skipped.honest_broadcast_failed"),
        Err(e) => return Err(e),
    }
    Ok(())
}

fn exec_plan_b(plan: &PlanB, counters: &mut Counters) -> Result<RunOut, String> {
    let _ = take_calls();
    let r = guard_run(|| -> Result<RunOut, String> {
        match plan.vdaf.as_str() {
            "trace" => {
                let v = TraceVdaf { rounds: plan.rounds };
                let mut ctx = Ctx::new(counters, accept());
                let setups = plan.exchanges.iter().map(|e| Setup { public: TPublic, inputs: [TInput(e.in0), TInput(e.in1)] }).collect();
                run_world(&v, plan, &mut ctx, setups, TAp(plan.ap_byte), true)?;
                // combiner order observed by the instrumented VDAF
                for c in take_calls() {
                    if c.f == "verifier_shares_to_message" {
                        if c.order == vec![0, 1] {
                            ctx.counters.inc("trace.combiner_order_leader_helper");
                        } else {
                            ctx.counters.inc("trace.combiner_order_other");
                        }
                    }
                }
                Ok(ctx.finish())
            }
            "dummy" => {
                let v = dummy::Vdaf::new(plan.rounds as u32);
                let mut ctx = Ctx::new(counters, accept());
                let setups = plan.exchanges.iter().map(|e| Setup { public: (), inputs: [dummy::InputShare(e.in0 as u8), dummy::InputShare(e.in1 as u8)] }).collect();
                run_world(&v, plan, &mut ctx, setups, dummy::AggregationParam(plan.ap_byte), false)?;
                Ok(ctx.finish())
            }
            _ => {
                let inst: &Inst = plan.inst.as_ref().ok_or("missing inst")?;
                match dispatch(inst, PpVis { plan, counters }) {
                    Ok(r) => r,
                    Err(BuildErr::Refused(e)) | Err(BuildErr::Unknown(e)) => Err(e),
                    Err(BuildErr::Panic(v)) => Err(v.detail),
                }
            }
        }
    });
    match r {
        Ok(x) => x,
        Err(e) => Err(e),
    }
}

impl Check for CheckB {
    fn id(&self) -> &'static str {
        "C12"
    }
    fn level(&self) -> &'static str {
        "fault_enumeration"
    }
    fn runs(&self, tier: Tier) -> u64 {
        let env = std::env::var("VERIF_RUNS").ok().and_then(|s| s.parse::<u64>().ok());
        env.unwrap_or(match tier {
            Tier::Quick => 200_000,
            Tier::Thorough => 6_000_000,
        })
    }
    fn gen(&self, seed: u64, _run: u64, tier: Tier) -> Value {
        serde_json::to_value(gen_plan_b(seed, tier)).unwrap()
    }
    fn exec(&self, plan: &Value, counters: &mut Counters) -> Result<RunOut, String> {
        let plan: PlanB = serde_json::from_value(plan.clone()).map_err(|e| format!("bad plan: {e}"))?;
        exec_plan_b(&plan, counters)
    }
    fn gen_exec(&self, seed: u64, _run: u64, tier: Tier, counters: &mut Counters) -> Result<(RunOut, Option<Value>), String> {
        let plan = gen_plan_b(seed, tier);
        let out = exec_plan_b(&plan, counters)?;
        let keep = out.violation.is_some();
        Ok((out, if keep { Some(serde_json::to_value(&plan).unwrap()) } else { None }))
    }
    fn shrink(&self, plan: &Value) -> Vec<Value> {
        let Ok(p) = serde_json::from_value::<PlanB>(plan.clone()) else { return Vec::new() };
        let mut out = Vec::new();
        for i in 0..p.steps.len() {
            let mut q = p.clone();
            q.steps.remove(i);
            out.push(q);
        }
        for i in 0..p.steps.len() {
            if let Step::Deliver { frame: Some(_), ex, to, src } = &p.steps[i] {
                let mut q = p.clone();
                q.steps[i] = Step::Deliver { ex: *ex, to: *to, src: src.clone(), frame: None };
                out.push(q);
            }
        }
        if p.exchanges.len() > 1 {
            let mut q = p.clone();
            q.exchanges.truncate(1);
            out.push(q);
        }
        if p.rounds > 1 && (p.vdaf == "trace" || p.vdaf == "dummy") {
            let mut q = p.clone();
            q.rounds -= 1;
            out.push(q);
        }
        out.into_iter().map(|x| serde_json::to_value(x).unwrap()).collect()
    }
    fn rule(&self) -> String {
        "seeded delivery sequences per exchange built from the genuine pending message, replays of any earlier message of either direction or another exchange, re-typed / field-swapped / length-altered / corrupted frames and payloads, and crash+restart from the encoded continuation (1..3 evaluations), followed by a fault-free epilogue; every library call mirrored by the specification model; distinct = distinct (vdaf, rounds, fault config, per-step (fault class, recipient)) sequences".into()
    }
    fn assumptions(&self) -> Vec<String> {
        vec![
            "the reference model is the harness's transliteration of the draft's ping_pong_* functions against the bare Aggregator trait (world_b.rs)".into(),
            "TraceVdaf (harness) makes share order, round and transcript observable; Prio3 / Poplar1 / dummy are the library's".into(),
            "a refused call leaves the party's durable state untouched (retry semantics), which is what makes the bounded-liveness oracle meaningful".into(),
        ]
    }
    fn components(&self) -> Value {
        json!({
            "real": ["PingPongTopology::{leader_initialized, helper_initialized, leader_continued, helper_continued}", "PingPongContinuation::{evaluate, encode, decode_with_param}", "PingPongMessage codec", "Prio3, Poplar1 and dummy VDAFs underneath"],
            "stub": ["transport (per-exchange message log)", "durable store (encoded continuation / verify state bytes)", "TraceVdaf instrumented VDAF", "specification model", "scheduler / fault injector"]
        })
    }
}
