//! C11 / world D: stream producers (the library's XOFs and seed streams, `into_field_vec`,
//! `IdpfValue::generate`) and a simulated reader. The simulator owns how seed / dst / binder are
//! split, the history of read sizes, and (through ScriptRng) every byte a field sampler sees.

use crate::core::*;
use crate::inst::Inst;
use crate::model;
use crate::rng::Rng;
use crate::sim_xof::{self, ScriptRng, SimXof, XofCfg};
use crate::util::{Counters, Hx, N};
use prio::codec::Encode;
use prio::field::{Field128, Field255, Field64, FieldElement, FieldPrio2};
use prio::flp::gadgets::{Mul, ParallelSum};
use prio::flp::types::{Count, Histogram, MultihotCountVec, Sum, SumVec};
use prio::flp::Type;
use prio::idpf::IdpfValue;
use prio::vdaf::poplar1::Poplar1;
use prio::vdaf::prio3::Prio3;
use prio::vdaf::test_utils::TestVectorClient;
use prio::vdaf::xof::{IntoFieldVec, Xof, XofFixedKeyAes128, XofFixedKeyAes128Key, XofHmacSha256Aes128, XofTurboShake128};
use prio::vdaf::Aggregator;
use rand_core::Rng as _;
use serde::{Deserialize, Serialize};
use serde_json::{json, Value};

#[derive(Clone, Debug, Serialize, Deserialize, PartialEq)]
pub struct Read {
    /// 0 = fill_bytes(len), 1 = next_u32, 2 = next_u64
    pub kind: u8,
    pub len: u16,
}

#[derive(Clone, Debug, Serialize, Deserialize, PartialEq)]
#[serde(tag = "k")]
pub enum Plan11 {
    Reader { xof: String, seed: Hx, dst: Hx, binder: Hx, dst_cuts: Vec<u16>, binder_cuts: Vec<u16>, reads: Vec<Read> },
    Sampler { field: String, mode: String, script: Hx, count: u16, tail: u8 },
    EndToEnd { inst: Inst, ctx: Hx, nonce: Hx, rand: Hx, vk: Hx, meas: Vec<N>, tape: Vec<u32> },
    /// a whole honest protocol run over SimXof where the streams of one derivation get
    /// over-modulus chunks spliced in (element index, count) for ALL parties: every party must
    /// skip them identically, so the report still verifies and aggregates to the same result
    Rejections { inst: Inst, ctx: Hx, nonce: Hx, rand: Hx, vk: Hx, meas: Vec<N>, usage: u16, inserts: Vec<(u32, u8)>, plen: u16 },
    /// Poplar1 sharding over a recording SimXof: the client's single sharding stream is read as Field64 elements,
    /// then one Field255 element, then Field64 pairs, then a Field255 pair (mixed element sizes on ONE stream, across
    /// buffer refills); the correlated-randomness streams as Field64 / Field255 triples. Every element on the wire is
    /// recomputed from the recorded stream bytes by chunk / mask / reject on plain integers. `script` optionally
    /// replaces the streams of one usage (1 = sharding, 2 = inner correlated, 3 = leaf correlated) by crafted bytes.
    PoplarStream { bits: u16, ctx: Hx, nonce: Hx, rand: Hx, meas: Vec<N>, script: Option<(u16, Hx)>, tape: Vec<u32> },
}

pub struct Check11;
pub fn checks() -> Vec<Box<dyn Check>> {
    vec![Box::new(Check11)]
}
const ACCEPT: &[&str] = &["C11.", "panic"];

fn split<'a>(b: &'a [u8], cuts: &[u16]) -> Vec<&'a [u8]> {
    if b.is_empty() {
        return vec![&b[..0]; (cuts.len() % 3) + 1];
    }
    let mut pts: Vec<usize> = cuts.iter().map(|c| *c as usize % (b.len() + 1)).collect();
    pts.sort();
    let mut out = Vec::new();
    let mut last = 0;
    for p in pts {
        out.push(&b[last..p]);
        last = p;
    }
    out.push(&b[last..]);
    out
}

const READ_SIZES: [u16; 16] = [0, 1, 1, 2, 15, 16, 17, 31, 32, 33, 167, 168, 169, 64, 255, 4096];

fn over_modulus(field: &str, rng: &mut Rng) -> Vec<u8> {
    match field {
        "f64" => {
            // [p, 2^64): top 32 bits all ones, low 32 bits >= 1
            let low = 1 + rng.below(0xffff_ffff) as u32;
            let v: u64 = 0xffff_ffff_0000_0000 | low as u64;
            v.to_le_bytes().to_vec()
        }
        "f128" => {
            let d = rng.u128() % (u128::MAX - model::P128 + 1);
            (model::P128 + d).to_le_bytes().to_vec()
        }
        "p2" => {
            let d = rng.below((u32::MAX as u64) - (model::P32 as u64) + 1) as u32;
            (model::P32 as u32 + d).to_le_bytes().to_vec()
        }
        _ => {
            // Field255: after clearing bit 255 the value must be in [2^255 - 19, 2^255)
            let mut v = vec![0xffu8; 32];
            v[0] = 0xed + rng.below(19) as u8;
            v[31] = if rng.chance(1, 2) { 0x7f } else { 0xff };
            v
        }
    }
}

fn valid_chunk(field: &str, rng: &mut Rng) -> Vec<u8> {
    match field {
        "f64" => (rng.u64() % model::P64 as u64).to_le_bytes().to_vec(),
        "f128" => (rng.u128() % model::P128).to_le_bytes().to_vec(),
        "p2" => ((rng.u64() % model::P32 as u64) as u32).to_le_bytes().to_vec(),
        _ => {
            let mut v = rng.bytes(32);
            v[31] &= 0x3f;
            // bits above the modulus length are ignored: set bit 255 on some valid chunks
            if rng.chance(1, 3) {
                v[31] |= 0x80;
            }
            v
        }
    }
}

/// A whole honest run with over-modulus chunks spliced into the streams of one derivation.
pub fn gen_rejections(rng: &mut Rng, poplar: bool) -> Plan11 {
    let inst = if poplar {
        let mut i = crate::inst_poplar::gen_poplar_inst(rng, false);
        i.len = i.len.min(16);
        i
    } else {
        let mut i = crate::inst::gen_prio3_inst(rng, true, false);
        let mut g = 0;
        while !matches!(i.class.as_str(), "count" | "sum" | "sumvec" | "hist" | "multihot") && g < 50 {
            i = crate::inst::gen_prio3_inst(rng, true, false);
            g += 1;
        }
        i.n = i.n.min(4);
        i
    };
    let usage = if inst.class == "poplar1" { 1 + rng.below(4) as u16 } else { 1 + rng.below(5) as u16 };
    let ni = 1 + rng.usize_below(3);
    let mut inserts: Vec<(u32, u8)> = (0..ni).map(|_| (*rng.pick(&[0u32, 0, 1, 2, 3, 5, 8, 13, 31, 32, 33]), *rng.pick(&[1u8, 1, 2, 3, 33]))).collect();
    inserts.sort();
    inserts.dedup_by_key(|x| x.0);
    let cl = *rng.pick(&[0usize, 1, 7]);
    Plan11::Rejections { ctx: Hx(rng.bytes(cl)), nonce: Hx(rng.bytes(16)), rand: Hx(rng.bytes(model::rand_len(&inst))), vk: Hx(rng.bytes(32)), meas: model::gen_meas(&inst, rng), usage, inserts, plen: rng.u32() as u16, inst }
}

/// Poplar1 sharding-stream run: bit lengths around the places where the 256-byte buffer of the sharding stream ends
/// inside / right before / right after the Field255 reads, optionally with a crafted stream (rejections that shift the
/// alignment of everything after them).
pub fn gen_poplar_stream(rng: &mut Rng) -> Plan11 {
    let bits: u16 = match rng.below(4) {
        0 => 1 + rng.below(40) as u16,
        1 => *rng.pick(&[1u16, 2, 8, 9, 10, 11, 19, 20, 21, 29, 30, 31, 32, 33, 34, 40, 41, 42, 51, 52, 62, 63, 64, 65, 96, 128]),
        2 => 1 + rng.below(140) as u16,
        _ => 28 + rng.below(8) as u16,
    };
    let script = if rng.chance(1, 2) {
        let usage = 1 + rng.below(3) as u16;
        let len = 64 + rng.usize_below(1200);
        let mut b = rng.bytes(len);
        // over-modulus material: 8-byte groups of 0xff (rejected as Field64; as part of a Field255 chunk they are just
        // bits), whole 32-byte groups in [2^255 - 19, 2^255) with either top bit, and Field64 values just below p
        let k = rng.usize_below(12);
        for _ in 0..k {
            let at = rng.usize_below(len.saturating_sub(40).max(1));
            match rng.below(4) {
                0 => {
                    let at = at / 8 * 8;
                    for x in b.iter_mut().skip(at).take(8) {
                        *x = 0xff;
                    }
                }
                1 => {
                    for x in b.iter_mut().skip(at).take(8) {
                        *x = 0xff;
                    }
                }
                2 => {
                    let v = over_modulus("f255", rng);
                    for (x, y) in b.iter_mut().skip(at).zip(v.iter()) {
                        *x = *y;
                    }
                }
                _ => {
                    let at = at / 8 * 8;
                    let v = ((model::P64 as u64) - 1 - rng.below(2)).to_le_bytes();
                    for (x, y) in b.iter_mut().skip(at).zip(v.iter()) {
                        *x = *y;
                    }
                }
            }
        }
        Some((usage, Hx(b)))
    } else {
        None
    };
    let cl = *rng.pick(&[0usize, 1, 7, 60]);
    let nt = rng.usize_below(24);
    Plan11::PoplarStream {
        bits,
        ctx: Hx(rng.bytes(cl)),
        nonce: Hx(rng.bytes(16)),
        rand: Hx(rng.bytes(32 + 3 * 32)),
        meas: (0..bits).map(|_| N(rng.below(2) as u128)).collect(),
        script,
        tape: (0..nt).map(|_| rng.u32()).collect(),
    }
}

fn gen(seed: u64, _tier: Tier) -> Plan11 {
    let mut rng = Rng::new(seed);
    let rng = &mut rng;
    match rng.below(12) {
        11 => gen_poplar_stream(rng),
        0..=3 => {
            let xof = *rng.pick(&["turboshake", "hmac", "fixedkey", "fixedkey_key"]);
            let sl = if xof.starts_with("fixedkey") { 16 } else { 32 };
            // XofHmacSha256Aes128 documents a 255-byte limit on the dst
            let dl = *rng.pick(&[0usize, 1, 8, 8, 9, 40, 300]);
            let dl = if xof == "hmac" { dl.min(255) } else { dl };
            let bl = *rng.pick(&[0usize, 1, 16, 17, 33, 200]);
            let nd = rng.usize_below(4);
            let nb = rng.usize_below(5);
            let nr = 1 + rng.usize_below(12);
            Plan11::Reader {
                xof: xof.to_string(),
                seed: Hx(rng.bytes(sl)),
                dst: Hx(rng.bytes(dl)),
                binder: Hx(rng.bytes(bl)),
                dst_cuts: (0..nd).map(|_| rng.u32() as u16).collect(),
                binder_cuts: (0..nb).map(|_| rng.u32() as u16).collect(),
                reads: (0..nr).map(|_| Read { kind: *rng.pick(&[0u8, 0, 0, 0, 1, 2]), len: *rng.pick(&READ_SIZES) }).collect(),
            }
        }
        4..=7 => {
            let field = *rng.pick(&["f64", "f128", "f255", "p2"]);
            let mode = if matches!(field, "f64" | "f255") { *rng.pick(&["vec", "vec", "generate", "pair"]) } else { *rng.pick(&["vec", "vec", "generate"]) };
            // script: chunks with over-modulus values at chosen buffer slots
            let nchunks = 1 + rng.usize_below(100);
            let mut bad = vec![false; nchunks];
            match rng.below(5) {
                0 => bad[0] = true,
                1 if nchunks > 31 => bad[31] = true,
                2 => {
                    // a run of consecutive rejections, possibly across the buffer boundary
                    let start = rng.usize_below(nchunks);
                    let run = 2 + rng.usize_below(40);
                    for b in bad.iter_mut().skip(start).take(run) {
                        *b = true;
                    }
                }
                3 => {
                    for b in bad.iter_mut() {
                        *b = rng.chance(1, 4);
                    }
                }
                _ => {
                    let s = rng.usize_below(nchunks);
                    bad[s] = true;
                    if s + 32 < nchunks {
                        bad[s + 32] = true;
                    }
                }
            }
            let mut script = Vec::new();
            for b in &bad {
                script.extend(if *b { over_modulus(field, rng) } else { valid_chunk(field, rng) });
            }
            let good = bad.iter().filter(|b| !**b).count();
            let count = match rng.below(3) {
                0 => good as u16,
                1 => (good + 1 + rng.usize_below(40)) as u16,
                _ => 1 + rng.below(good.max(1) as u64) as u16,
            };
            Plan11::Sampler { field: field.to_string(), mode: mode.to_string(), script: Hx(script), count: count.max(1), tail: *rng.pick(&[0u8, 1, 0xff]) }
        }
        8 => {
            let poplar = rng.chance(1, 3);
            gen_rejections(rng, poplar)
        }
        _ => {
            let inst = if rng.chance(1, 4) {
                let mut i = crate::inst_poplar::gen_poplar_inst(rng, false);
                i.len = i.len.min(16);
                i
            } else {
                let mut i = crate::inst::gen_prio3_inst(rng, true, false);
                let mut g = 0;
                while !matches!(i.class.as_str(), "count" | "sum" | "sumvec" | "hist" | "multihot") && g < 50 {
                    i = crate::inst::gen_prio3_inst(rng, true, false);
                    g += 1;
                }
                i.n = i.n.min(4);
                i
            };
            let nt = 4 + rng.usize_below(60);
            let cl = *rng.pick(&[0usize, 1, 7, 30]);
            Plan11::EndToEnd { ctx: Hx(rng.bytes(cl)), nonce: Hx(rng.bytes(16)), rand: Hx(rng.bytes(model::rand_len(&inst))), vk: Hx(rng.bytes(32)), meas: model::gen_meas(&inst, rng), tape: (0..nt).map(|_| rng.u32()).collect(), inst }
        }
    }
}

fn drive<S: rand_core::Rng>(s: &mut S, reads: &[Read]) -> Vec<u8> {
    let mut out = Vec::new();
    for r in reads {
        match r.kind {
            1 => out.extend_from_slice(&s.next_u32().to_le_bytes()),
            2 => out.extend_from_slice(&s.next_u64().to_le_bytes()),
            _ => {
                let mut b = vec![0u8; r.len as usize];
                s.fill_bytes(&mut b);
                out.extend(b);
            }
        }
    }
    out
}

fn reader_case<const S: usize, P: Xof<S>>(ctx: &mut Ctx, seed: &[u8], dst: &[u8], binder: &[u8], dst_cuts: &[u16], binder_cuts: &[u16], reads: &[Read], name: &str) {
    let mut sd = [0u8; S];
    sd.copy_from_slice(&seed[..S]);
    let dparts = split(dst, dst_cuts);
    let bparts = split(binder, binder_cuts);
    let r = guard(name, || {
        // split instance, read history
        let mut x = P::init(&sd, &dparts);
        for b in &bparts {
            x.update(b);
        }
        let seed_of_split = x.clone().into_seed();
        let mut st = x.into_seed_stream();
        let got = drive(&mut st, reads);
        // unsplit instance, one read
        let mut y = P::init(&sd, &[dst]);
        y.update(binder);
        let seed_of_whole = y.clone().into_seed();
        let mut want = vec![0u8; got.len().max(S)];
        y.into_seed_stream().fill_bytes(&mut want);
        // seed_stream() convenience constructor
        let mut via = vec![0u8; got.len()];
        P::seed_stream(&sd, &dparts, &bparts).fill_bytes(&mut via);
        (got, want, seed_of_split, seed_of_whole, via)
    });
    match r {
        Err(v) => ctx.fail(v),
        Ok((got, want, s1, s2, via)) => {
            ctx.trace.bytes(&got);
            ctx.events += reads.len() as u64;
            if got[..] != want[..got.len()] {
                ctx.fail(Violation::new("C11.chunking", format!("{name}|stream"), format!("{name}: the stream read with sizes {:?} after splitting dst into {} and binder into {} parts differs from the one-shot stream", reads.iter().map(|r| if r.kind == 0 { r.len as i32 } else { -(r.kind as i32) }).collect::<Vec<_>>(), dparts.len(), bparts.len())));
            } else if via != got {
                ctx.fail(Violation::new("C11.chunking", format!("{name}|seed_stream"), format!("{name}: Xof::seed_stream differs from init/update/into_seed_stream")));
            } else if s1.as_ref()[..] != want[..S] || s2.as_ref()[..] != want[..S] {
                ctx.fail(Violation::new("C11.seed", format!("{name}|into_seed"), format!("{name}: into_seed() is not the first {S} bytes of the stream")));
            }
        }
    }
}

fn ref_sample(field: &str, script: &[u8], tail: u8, count: usize) -> (Vec<Vec<u8>>, usize) {
    // chunk -> clear bits above the modulus length -> discard if >= p; returns elements (as
    // canonical little-endian bytes) and the number of chunks consumed
    let size = match field {
        "f64" => 8,
        "f128" => 16,
        "p2" => 4,
        _ => 32,
    };
    let mut out = Vec::new();
    let mut k = 0usize;
    while out.len() < count && k < 1_000_000 {
        let mut c: Vec<u8> = (0..size).map(|i| script.get(k * size + i).copied().unwrap_or(tail)).collect();
        k += 1;
        let ok = match field {
            "f64" => (u64::from_le_bytes(c.clone().try_into().unwrap()) as u128) < model::P64,
            "f128" => u128::from_le_bytes(c.clone().try_into().unwrap()) < model::P128,
            "p2" => (u32::from_le_bytes(c.clone().try_into().unwrap()) as u128) < model::P32,
            _ => {
                c[31] &= 0x7f;
                // < 2^255 - 19  <=>  not (all upper bytes 0xff.., c[31] == 0x7f, c[0] >= 0xed)
                !(c[31] == 0x7f && c[1..31].iter().all(|b| *b == 0xff) && c[0] >= 0xed)
            }
        };
        if ok {
            out.push(c);
        }
    }
    (out, k)
}

fn sampler_case<F: FieldElement + IdpfValue<ValueParameter = ()>>(ctx: &mut Ctx, field: &str, mode: &str, script: &[u8], tail: u8, count: usize) {
    if tail == 0xff && (field != "f255") {
        // an all-ones tail never yields an element: keep the request within the script
    }
    let (want, chunks) = ref_sample(field, script, if tail == 0xff { 0 } else { tail }, count);
    let tail = if tail == 0xff { 0 } else { tail };
    let mut rng = ScriptRng::new(script.to_vec(), tail);
    let r = guard("field sampling", || -> Vec<Vec<u8>> {
        if mode == "vec" {
            let v: Vec<F> = (&mut rng).into_field_vec(count);
            v.iter().map(|x| x.get_encoded().unwrap()).collect()
        } else if mode == "pair" {
            // the IDPF value pair of Poplar1: two successive elements of the stream per value
            let mut out = Vec::new();
            for _ in 0..count.div_ceil(2) {
                let v = prio::vdaf::poplar1::Poplar1IdpfValue::<F>::generate(&mut rng, &());
                let b = v.get_encoded().unwrap();
                let h = b.len() / 2;
                out.push(b[..h].to_vec());
                out.push(b[h..].to_vec());
            }
            out.truncate(count);
            out
        } else {
            (0..count).map(|_| F::generate(&mut rng, &()).get_encoded().unwrap()).collect()
        }
    });
    match r {
        Err(v) => ctx.fail(v),
        Ok(got) => {
            ctx.events += chunks as u64;
            for g in &got {
                ctx.trace.bytes(g);
            }
            let rejections = chunks - want.len();
            if rejections > 0 {
                ctx.probe("rejection_sampling_rejected");
            }
            if chunks > 32 && rejections > 0 {
                ctx.probe("rejection_with_buffer_refill");
            }
            if got != want {
                let first = got.iter().zip(want.iter()).position(|(a, b)| a != b).unwrap_or(got.len().min(want.len()));
                ctx.fail(Violation::new("C11.sampling", format!("{field}|{mode}"), format!("{field} {mode}: element {first} of {count} differs from chunk/mask/reject sampling of the same byte stream ({rejections} rejections among {chunks} chunks)")));
                return;
            }
            if mode == "generate" {
                let size = want.first().map(|w| w.len()).unwrap_or(0);
                if rng.requests.iter().any(|r| *r != size) || rng.requests.len() != chunks {
                    ctx.fail(Violation::new("C11.sampling", format!("{field}|generate_consumption"), format!("{field} generate: read requests {:?}… do not consume exactly one {size}-byte chunk per attempt ({chunks} attempts)", &rng.requests[..rng.requests.len().min(8)])));
                }
            }
        }
    }
}

fn e2e_prio3<T: Type + Clone>(ctx: &mut Ctx, typ: T, inst: &Inst, alg: u32, meas: T::Measurement, c: &[u8], nonce: &[u8; 16], rand: &[u8], vk: &[u8; 32], tape: &[u32]) -> Result<(), String> {
    let plain: Prio3<T, XofTurboShake128, 32> = Prio3::new(inst.n, inst.proofs, alg, typ.clone()).map_err(|e| e.to_string())?;
    let sim: Prio3<T, SimXof, 32> = Prio3::new(inst.n, inst.proofs, alg, typ).map_err(|e| e.to_string())?;
    let a = guard("Prio3::shard_with_random", || plain.shard_with_random(c, &meas, nonce, rand));
    sim_xof::install(XofCfg { tape: tape.to_vec(), ..Default::default() });
    let b = guard("Prio3<SimXof>::shard_with_random", || sim.shard_with_random(c, &meas, nonce, rand));
    let (a, b) = match (a, b) {
        (Ok(Ok(a)), Ok(Ok(b))) => (a, b),
        (Err(v), _) | (_, Err(v)) => {
            sim_xof::take();
            ctx.fail(v);
            return Ok(());
        }
        _ => {
            sim_xof::take();
            return Err("sharding failed".into());
        }
    };
    let mut diff = None;
    if a.0.get_encoded().unwrap() != b.0.get_encoded().unwrap() {
        diff = Some("public share".to_string());
    }
    for j in 0..inst.n as usize {
        if a.1[j].get_encoded().unwrap() != b.1[j].get_encoded().unwrap() {
            diff = Some(format!("input share {j}"));
        }
        let x = guard("verify_init", || plain.verify_init(vk, c, j, &(), nonce, &a.0, &a.1[j]));
        let y = guard("verify_init<SimXof>", || sim.verify_init(vk, c, j, &(), nonce, &b.0, &b.1[j]));
        match (x, y) {
            (Ok(Ok(x)), Ok(Ok(y))) => {
                if x.1.get_encoded().unwrap() != y.1.get_encoded().unwrap() || x.0.get_encoded().unwrap() != y.0.get_encoded().unwrap() {
                    diff = Some(format!("verifier share / state {j}"));
                }
                ctx.trace.bytes(&x.1.get_encoded().unwrap());
            }
            (Err(v), _) | (_, Err(v)) => {
                sim_xof::take();
                ctx.fail(v);
                return Ok(());
            }
            _ => diff = Some(format!("verify_init outcome {j}")),
        }
    }
    let cfg = sim_xof::take();
    ctx.counters.add("simxof.inits", cfg.inits);
    ctx.counters.add("simxof.pieces", cfg.pieces);
    ctx.events += cfg.inits;
    if let Some(d) = diff {
        ctx.fail(Violation::new("C11.end_to_end", format!("prio3|{}", inst.class), format!("Prio3 {} over a re-chunking XOF: {d} differs from the plain instantiation", inst.class)));
    }
    Ok(())
}

/// Object-level honest run: verify at both/all aggregators, combine, finish, aggregate, unshard.
fn full_run<V>(v: &V, c: &[u8], vk: &[u8; 32], nonce: &[u8; 16], ap: &V::AggregationParam, public: &V::PublicShare, shares: &[V::InputShare]) -> Result<String, String>
where
    V: Aggregator<32, 16> + prio::vdaf::Collector,
    V::AggregateResult: std::fmt::Debug,
{
    use prio::vdaf::VerifyTransition;
    let n = shares.len();
    let mut states = Vec::new();
    let mut vs = Vec::new();
    for j in 0..n {
        let (st, sh) = v.verify_init(vk, c, j, ap, nonce, public, &shares[j]).map_err(|e| format!("verify_init({j}): {e}"))?;
        states.push(st);
        vs.push(sh);
    }
    let mut outs = Vec::new();
    for _round in 0..4 {
        let msg = v.verifier_shares_to_message(c, ap, vs.clone()).map_err(|e| format!("verifier_shares_to_message: {e}"))?;
        let mut next_states = Vec::new();
        let mut next_vs = Vec::new();
        for st in states.iter() {
            match v.verify_next(c, st.clone(), msg.clone()).map_err(|e| format!("verify_next: {e}"))? {
                VerifyTransition::Continue(s2, sh2) => {
                    next_states.push(s2);
                    next_vs.push(sh2);
                }
                VerifyTransition::Finish(o) => outs.push(o),
            }
        }
        if outs.len() == n {
            break;
        }
        if !outs.is_empty() {
            return Err("aggregators finished in different rounds".into());
        }
        states = next_states;
        vs = next_vs;
    }
    if outs.len() != n {
        return Err("did not finish".into());
    }
    let mut aggs = Vec::new();
    for o in outs {
        aggs.push(v.aggregate(ap, [o]).map_err(|e| format!("aggregate: {e}"))?);
    }
    let r = v.unshard(ap, aggs, 1).map_err(|e| format!("unshard: {e}"))?;
    Ok(format!("{r:?}"))
}

fn insertions(inserts: &[(u32, u8)], fs: usize) -> Vec<(usize, Vec<u8>)> {
    // offsets are in OUTPUT coordinates: earlier insertions shift later ones
    let mut out = Vec::new();
    let mut shift = 0usize;
    for (idx, cnt) in inserts {
        let bytes = vec![0xffu8; fs * *cnt as usize];
        out.push((*idx as usize * fs + shift, bytes.clone()));
        shift += bytes.len();
    }
    out
}

fn rej_prio3<T: Type + Clone>(ctx: &mut Ctx, typ: T, inst: &Inst, alg: u32, meas: T::Measurement, c: &[u8], nonce: &[u8; 16], rand: &[u8], vk: &[u8; 32], usage: u16, inserts: &[(u32, u8)]) -> Result<(), String>
where
    T::AggregateResult: std::fmt::Debug,
{
    let plain: Prio3<T, XofTurboShake128, 32> = Prio3::new(inst.n, inst.proofs, alg, typ.clone()).map_err(|e| e.to_string())?;
    let sim: Prio3<T, SimXof, 32> = Prio3::new(inst.n, inst.proofs, alg, typ).map_err(|e| e.to_string())?;
    // the reference run with the unmodified XOF: an honest in-range report must go through
    let reference = guard("Prio3 honest reference run", || -> Result<String, String> {
        let (p0, s0) = plain.shard_with_random(c, &meas, nonce, rand).map_err(|e| format!("shard: {e}"))?;
        full_run(&plain, c, vk, nonce, &(), &p0, &s0)
    });
    let want = match reference {
        Ok(Ok(w)) => w,
        Ok(Err(e)) => {
            ctx.fail(Violation::new("C11.reference_run", format!("prio3|{}", inst.class), format!("Prio3 {} ({:?}): an honest in-range report does not go through with the unmodified XOF: {e}", inst.class, inst)));
            return Ok(());
        }
        Err(v) => {
            ctx.fail(v);
            return Ok(());
        }
    };
    let fs = <T::Field as FieldElement>::ENCODED_SIZE;
    sim_xof::install(XofCfg { tape: vec![], inject: Some((usage, insertions(inserts, fs))), ..Default::default() });
    let r = guard("Prio3<SimXof> honest run with spliced rejections", || -> Result<String, String> {
        let (p1, s1) = sim.shard_with_random(c, &meas, nonce, rand).map_err(|e| format!("shard: {e}"))?;
        full_run(&sim, c, vk, nonce, &(), &p1, &s1)
    });
    let cfg = sim_xof::take();
    ctx.events += cfg.inits;
    match r {
        Err(v) => ctx.fail(v),
        Ok(Err(e)) => ctx.fail(Violation::new("C11.rejections", format!("prio3|{}|usage{usage}", inst.class), format!("Prio3 {}: with over-modulus chunks {:?} spliced into every usage-{usage} stream (for all parties alike) the honest report no longer verifies: {e}", inst.class, inserts))),
        Ok(Ok(got)) => {
            if got != want {
                ctx.fail(Violation::new("C11.rejections", format!("prio3|{}|usage{usage}|result", inst.class), format!("Prio3 {}: spliced rejections changed the aggregate result: {got} vs {want}", inst.class)));
            }
            ctx.counters.inc("c11.rejection_runs_ok");
        }
    }
    Ok(())
}

/// Sequential chunk / mask / reject reader over recorded stream bytes (plain integers; no library field code).
struct RefReader<'a> {
    s: &'a [u8],
    pos: usize,
    chunks: usize,
    rejected: usize,
    short: bool,
}
impl<'a> RefReader<'a> {
    fn new(s: &'a [u8]) -> Self {
        RefReader { s, pos: 0, chunks: 0, rejected: 0, short: false }
    }
    fn f64(&mut self) -> u128 {
        loop {
            if self.pos + 8 > self.s.len() {
                self.short = true;
                return 0;
            }
            let v = u64::from_le_bytes(self.s[self.pos..self.pos + 8].try_into().unwrap()) as u128;
            self.pos += 8;
            self.chunks += 1;
            if v < model::P64 {
                return v;
            }
            self.rejected += 1;
        }
    }
    /// canonical little-endian bytes of the next Field255 element
    fn f255(&mut self) -> [u8; 32] {
        loop {
            if self.pos + 32 > self.s.len() {
                self.short = true;
                return [0; 32];
            }
            let mut c: [u8; 32] = self.s[self.pos..self.pos + 32].try_into().unwrap();
            self.pos += 32;
            self.chunks += 1;
            c[31] &= 0x7f;
            if !(c[31] == 0x7f && c[1..31].iter().all(|b| *b == 0xff) && c[0] >= 0xed) {
                return c;
            }
            self.rejected += 1;
        }
    }
}
fn mul64(a: u128, b: u128) -> u128 {
    // a, b < 2^64: the product fits u128
    (a * b) % model::P64
}
fn sub64(a: u128, b: u128) -> u128 {
    (a + model::P64 - b) % model::P64
}

#[allow(non_snake_case)]
fn poplar_stream_case(ctx: &mut Ctx, bits: usize, c: &[u8], nonce: &[u8; 16], rand: &[u8], meas: &[N], script: &Option<(u16, Hx)>, tape: &[u32]) -> Result<(), String> {
    use prio::codec::Decode;
    let sim: Poplar1<SimXof, 32> = Poplar1::new(bits);
    let input = crate::inst_poplar::bits_to_input(meas);
    sim_xof::install(XofCfg { tape: tape.to_vec(), script: script.as_ref().map(|(u, b)| (*u, b.0.clone())), recording: true, ..Default::default() });
    let r = guard("Poplar1<SimXof>::shard_with_random", || sim.shard_with_random(c, &input, nonce, rand));
    let cfg = sim_xof::take();
    ctx.events += cfg.inits;
    let (_public, shares) = match r {
        Err(v) => {
            ctx.fail(v);
            return Ok(());
        }
        Ok(Err(e)) => {
            ctx.fail(Violation::new("C11.poplar_stream", "shard_refused".to_string(), format!("Poplar1 (bits {bits}) refused to shard an in-range input: {e}")));
            return Ok(());
        }
        Ok(Ok(x)) => x,
    };
    let stream = |usage: u16, nth: usize| -> Option<&Vec<u8>> { cfg.record.iter().filter(|(u, _)| *u == usage).nth(nth).map(|(_, b)| b) };
    let (Some(sh), Some(ci0), Some(ci1), Some(cl0), Some(cl1)) = (stream(1, 0), stream(2, 0), stream(2, 1), stream(3, 0), stream(3, 1)) else {
        // the library no longer creates the five streams the specification describes: nothing to compare with
        ctx.fail(Violation::new("C11.poplar_stream", "streams".to_string(), format!("Poplar1 sharding (bits {bits}) did not create one sharding stream, two inner and two leaf correlated-randomness streams (usages seen: {:?})", cfg.record.iter().map(|(u, _)| *u).collect::<Vec<_>>())));
        return Ok(());
    };
    let mut s = RefReader::new(sh);
    let mut r0 = RefReader::new(ci0);
    let mut r1 = RefReader::new(ci1);
    // sharding stream: bits - 1 inner authenticators, the leaf authenticator, then the helper's (A, B) shares
    let auth_inner: Vec<u128> = (0..bits - 1).map(|_| s.f64()).collect();
    let auth_leaf_b = s.f255();
    let mut want0: Vec<u8> = Vec::new();
    let mut want1: Vec<u8> = Vec::new();
    for auth in &auth_inner {
        let a = (r0.f64() + r1.f64()) % model::P64;
        let b = (r0.f64() + r1.f64()) % model::P64;
        let cc = (r0.f64() + r1.f64()) % model::P64;
        let A = (sub64(0, mul64(2, a)) + auth) % model::P64;
        let B = (sub64((mul64(a, a) + b) % model::P64, mul64(a, *auth)) + cc) % model::P64;
        let h = [s.f64(), s.f64()];
        want1.extend_from_slice(&(h[0] as u64).to_le_bytes());
        want1.extend_from_slice(&(h[1] as u64).to_le_bytes());
        want0.extend_from_slice(&(sub64(A, h[0]) as u64).to_le_bytes());
        want0.extend_from_slice(&(sub64(B, h[1]) as u64).to_le_bytes());
    }
    // leaf level: sampling by the reference reader, arithmetic with the library's Field255 (C11 is about the sampling)
    let mut l0 = RefReader::new(cl0);
    let mut l1 = RefReader::new(cl1);
    let f = |b: [u8; 32]| Field255::get_decoded(&b).map_err(|e| format!("reference produced a non-canonical Field255 element: {e}"));
    let auth_leaf = f(auth_leaf_b)?;
    let a = f(l0.f255())? + f(l1.f255())?;
    let b = f(l0.f255())? + f(l1.f255())?;
    let cc = f(l0.f255())? + f(l1.f255())?;
    let two = Field255::from(2u64);
    let A = -two * a + auth_leaf;
    let B = a * a + b - a * auth_leaf + cc;
    let h = [f(s.f255())?, f(s.f255())?];
    want1.extend_from_slice(&h[0].get_encoded().unwrap());
    want1.extend_from_slice(&h[1].get_encoded().unwrap());
    want0.extend_from_slice(&(A - h[0]).get_encoded().unwrap());
    want0.extend_from_slice(&(B - h[1]).get_encoded().unwrap());
    if s.short || r0.short || r1.short || l0.short || l1.short {
        // the library consumed fewer stream bytes than sequential sampling needs: it cannot have sampled sequentially
        ctx.fail(Violation::new("C11.poplar_stream", "short".to_string(), format!("Poplar1 sharding (bits {bits}) drew fewer bytes from a stream than chunk-by-chunk sampling of its elements consumes (sharding stream: {} bytes recorded, {} needed)", sh.len(), s.pos)));
        return Ok(());
    }
    if s.rejected + r0.rejected + r1.rejected + l0.rejected + l1.rejected > 0 {
        ctx.probe("rejection_sampling_rejected");
    }
    if s.pos > 256 {
        ctx.probe("poplar_sharding_stream_refilled");
        if (256 - (bits - 1) * 8 % 256) % 32 != 0 {
            ctx.probe("poplar_field255_read_straddles_refill");
        }
    }
    for (j, want) in [(0usize, &want0), (1usize, &want1)] {
        let got = shares[j].get_encoded().map_err(|e| e.to_string())?;
        if got.len() < 48 || got[48..] != want[..] {
            let tail = got.get(48..).unwrap_or(&[]);
            let first = tail.iter().zip(want.iter()).position(|(x, y)| x != y).unwrap_or(tail.len().min(want.len()));
            let which = if first / 16 < bits - 1 { format!("inner level {} element {}", first / 16, first % 16 / 8) } else { format!("leaf element {}", (first - 16 * (bits - 1)) / 32) };
            ctx.fail(Violation::new("C11.sampling", format!("poplar_stream|share{j}"), format!("Poplar1 (bits {bits}): correlated randomness of input share {j} ({which}) differs from chunk / mask / reject sampling of the recorded streams (sharding stream read as {} Field64, one Field255, {} Field64 and two Field255 elements; {} chunks rejected)", bits - 1, 2 * (bits - 1), s.rejected)));
            return Ok(());
        }
    }
    ctx.counters.inc("c11.poplar_stream_ok");
    Ok(())
}

fn exec(p: &Plan11, ctx: &mut Ctx) -> Result<(), String> {
    ctx.nontrivial = true;
    match p {
        Plan11::Reader { xof, seed, dst, binder, dst_cuts, binder_cuts, reads } => {
            ctx.sig.str("reader").str(xof).u64(dst.0.len() as u64).u64(binder.0.len() as u64).u64(dst_cuts.len() as u64).u64(binder_cuts.len() as u64);
            for r in reads {
                ctx.sig.u64(r.kind as u64 * 100_000 + r.len as u64);
            }
            ctx.counters.inc(&format!("reader.{xof}"));
            match xof.as_str() {
                "turboshake" => reader_case::<32, XofTurboShake128>(ctx, &seed.0, &dst.0, &binder.0, dst_cuts, binder_cuts, reads, "XofTurboShake128"),
                "hmac" => reader_case::<32, XofHmacSha256Aes128>(ctx, &seed.0, &dst.0, &binder.0, dst_cuts, binder_cuts, reads, "XofHmacSha256Aes128"),
                "fixedkey" => reader_case::<16, XofFixedKeyAes128>(ctx, &seed.0, &dst.0, &binder.0, dst_cuts, binder_cuts, reads, "XofFixedKeyAes128"),
                _ => {
                    // XofFixedKeyAes128Key::new(dst parts, binder).with_seed(seed) vs the Xof<16> form
                    let mut sd = [0u8; 16];
                    sd.copy_from_slice(&seed.0[..16]);
                    let dparts = split(&dst.0, dst_cuts);
                    let r = guard("XofFixedKeyAes128Key", || {
                        let key = XofFixedKeyAes128Key::new(&dparts, &binder.0);
                        let mut s = key.with_seed(&sd);
                        let got = drive(&mut s, reads);
                        let whole = XofFixedKeyAes128Key::new(&[&dst.0], &binder.0);
                        let mut want = vec![0u8; got.len()];
                        whole.with_seed(&sd).fill_bytes(&mut want);
                        let mut x = XofFixedKeyAes128::init(&sd, &[&dst.0]);
                        x.update(&binder.0);
                        let mut other = vec![0u8; got.len()];
                        x.into_seed_stream().fill_bytes(&mut other);
                        (got, want, other)
                    });
                    match r {
                        Err(v) => ctx.fail(v),
                        Ok((got, want, other)) => {
                            ctx.trace.bytes(&got);
                            ctx.events += reads.len() as u64;
                            if got != want {
                                ctx.fail(Violation::new("C11.chunking", "XofFixedKeyAes128Key|stream", "XofFixedKeyAes128Key::with_seed: stream depends on dst splitting or read sizes"));
                            } else if got != other {
                                ctx.fail(Violation::new("C11.chunking", "XofFixedKeyAes128Key|vs_xof", "XofFixedKeyAes128Key::with_seed and XofFixedKeyAes128 (same seed, dst, binder) give different streams"));
                            }
                        }
                    }
                }
            }
            Ok(())
        }
        Plan11::Sampler { field, mode, script, count, tail } => {
            ctx.sig.str("sampler").str(field).str(mode).u64(*count as u64).u64(script.0.len() as u64);
            ctx.counters.inc(&format!("sampler.{field}.{mode}"));
            match field.as_str() {
                "f64" => sampler_case::<Field64>(ctx, field, mode, &script.0, *tail, *count as usize),
                "f128" => sampler_case::<Field128>(ctx, field, mode, &script.0, *tail, *count as usize),
                "p2" => sampler_case::<FieldPrio2>(ctx, field, mode, &script.0, *tail, *count as usize),
                _ => sampler_case::<Field255>(ctx, field, mode, &script.0, *tail, *count as usize),
            }
            Ok(())
        }
        Plan11::Rejections { inst, ctx: c, nonce, rand, vk, meas, usage, inserts, plen } => {
            ctx.sig.str("rej").str(&inst.class).u64(inst.n as u64).u64(*usage as u64);
            for i in inserts {
                ctx.sig.u64(i.0 as u64 * 256 + i.1 as u64);
            }
            ctx.counters.inc(&format!("rej.{}.usage{usage}", inst.class));
            ctx.fault("spliced_rejections");
            let mut n16 = [0u8; 16];
            n16.copy_from_slice(&nonce.0);
            let mut k32 = [0u8; 32];
            k32.copy_from_slice(&vk.0);
            let max = inst.max.0;
            let len = inst.len as usize;
            let chunk = inst.chunk as usize;
            type PS = ParallelSum<Field128, Mul>;
            match inst.class.as_str() {
                "count" => rej_prio3(ctx, Count::<Field64>::new(), inst, 1, meas[0].0 != 0, &c.0, &n16, &rand.0, &k32, *usage, inserts),
                "sum" => rej_prio3(ctx, Sum::<Field64>::new(max as u64).map_err(|e| e.to_string())?, inst, 2, meas[0].0 as u64, &c.0, &n16, &rand.0, &k32, *usage, inserts),
                "sumvec" => rej_prio3(ctx, SumVec::<Field128, PS>::new(max, len, chunk).map_err(|e| e.to_string())?, inst, 3, meas.iter().map(|x| x.0).collect::<Vec<u128>>(), &c.0, &n16, &rand.0, &k32, *usage, inserts),
                "hist" => rej_prio3(ctx, Histogram::<Field128, PS>::new(len, chunk).map_err(|e| e.to_string())?, inst, 4, meas[0].0 as usize, &c.0, &n16, &rand.0, &k32, *usage, inserts),
                "multihot" => rej_prio3(ctx, MultihotCountVec::<Field128, PS>::new(len, inst.weight as usize, chunk).map_err(|e| e.to_string())?, inst, 5, meas.iter().map(|x| x.0 != 0).collect::<Vec<bool>>(), &c.0, &n16, &rand.0, &k32, *usage, inserts),
                "poplar1" => {
                    let plain: Poplar1<XofTurboShake128, 32> = Poplar1::new(len);
                    let sim: Poplar1<SimXof, 32> = Poplar1::new(len);
                    let input = crate::inst_poplar::bits_to_input(meas);
                    let l = 1 + *plen as usize % len;
                    let ap = prio::vdaf::poplar1::Poplar1AggregationParam::try_from_prefixes(vec![input.prefix(l - 1)]).map_err(|e| e.to_string())?;
                    let reference = guard("Poplar1 honest reference run", || -> Result<String, String> {
                        let (p0, s0) = plain.shard_with_random(&c.0, &input, &n16, &rand.0).map_err(|e| format!("shard: {e}"))?;
                        full_run(&plain, &c.0, &k32, &n16, &ap, &p0, &s0)
                    });
                    let want = match reference {
                        Ok(Ok(w)) => w,
                        Ok(Err(e)) => {
                            ctx.fail(Violation::new("C11.reference_run", "poplar1".to_string(), format!("Poplar1 (bits {len}, prefix length {l}): an honest report does not go through with the unmodified XOF: {e}")));
                            return Ok(());
                        }
                        Err(v) => {
                            ctx.fail(v);
                            return Ok(());
                        }
                    };
                    // element size of the spliced chunks: leaf-field streams are 32-byte chunks
                    let fs = if *usage == 3 || (*usage == 4 && l == len) { 32 } else { 8 };
                    sim_xof::install(XofCfg { tape: vec![], inject: Some((*usage, insertions(inserts, fs))), ..Default::default() });
                    let r = guard("Poplar1<SimXof> honest run with spliced rejections", || -> Result<String, String> {
                        let (p1, s1) = sim.shard_with_random(&c.0, &input, &n16, &rand.0).map_err(|e| format!("shard: {e}"))?;
                        full_run(&sim, &c.0, &k32, &n16, &ap, &p1, &s1)
                    });
                    let cfg = sim_xof::take();
                    ctx.events += cfg.inits;
                    match r {
                        Err(v) => ctx.fail(v),
                        Ok(Err(e)) => ctx.fail(Violation::new("C11.rejections", format!("poplar1|usage{usage}"), format!("Poplar1 (bits {len}, prefix length {l}): with over-modulus chunks {inserts:?} spliced into every usage-{usage} stream (for all parties alike) the honest report no longer verifies: {e}"))),
                        Ok(Ok(got)) => {
                            if got != want {
                                ctx.fail(Violation::new("C11.rejections", format!("poplar1|usage{usage}|result"), format!("Poplar1: spliced rejections changed the result: {got} vs {want}")));
                            }
                            ctx.counters.inc("c11.rejection_runs_ok");
                        }
                    }
                    Ok(())
                }
                c => Err(format!("class {c} not wired for the rejection run")),
            }
        }
        Plan11::PoplarStream { bits, ctx: c, nonce, rand, meas, script, tape } => {
            ctx.sig.str("poplar_stream").u64(*bits as u64).u64(script.as_ref().map(|x| x.0 as u64 + 1).unwrap_or(0)).u64(c.0.len() as u64);
            ctx.counters.inc("kind.poplar_stream");
            let mut n16 = [0u8; 16];
            n16.copy_from_slice(&nonce.0);
            poplar_stream_case(ctx, *bits as usize, &c.0, &n16, &rand.0, meas, script, tape)
        }
        Plan11::EndToEnd { inst, ctx: c, nonce, rand, vk, meas, tape } => {
            ctx.sig.str("e2e").str(&inst.class).u64(inst.n as u64).u64(inst.len as u64).u64(tape.len() as u64 / 8);
            ctx.counters.inc(&format!("e2e.{}", inst.class));
            let mut n16 = [0u8; 16];
            n16.copy_from_slice(&nonce.0);
            let mut k32 = [0u8; 32];
            k32.copy_from_slice(&vk.0);
            let max = inst.max.0;
            let len = inst.len as usize;
            let chunk = inst.chunk as usize;
            type PS = ParallelSum<Field128, Mul>;
            match inst.class.as_str() {
                "count" => e2e_prio3(ctx, Count::<Field64>::new(), inst, 1, meas[0].0 != 0, &c.0, &n16, &rand.0, &k32, tape),
                "sum" => e2e_prio3(ctx, Sum::<Field64>::new(max as u64).map_err(|e| e.to_string())?, inst, 2, meas[0].0 as u64, &c.0, &n16, &rand.0, &k32, tape),
                "sumvec" => e2e_prio3(ctx, SumVec::<Field128, PS>::new(max, len, chunk).map_err(|e| e.to_string())?, inst, 3, meas.iter().map(|x| x.0).collect::<Vec<u128>>(), &c.0, &n16, &rand.0, &k32, tape),
                "hist" => e2e_prio3(ctx, Histogram::<Field128, PS>::new(len, chunk).map_err(|e| e.to_string())?, inst, 4, meas[0].0 as usize, &c.0, &n16, &rand.0, &k32, tape),
                "multihot" => e2e_prio3(ctx, MultihotCountVec::<Field128, PS>::new(len, inst.weight as usize, chunk).map_err(|e| e.to_string())?, inst, 5, meas.iter().map(|x| x.0 != 0).collect::<Vec<bool>>(), &c.0, &n16, &rand.0, &k32, tape),
                "poplar1" => {
                    let plain: Poplar1<XofTurboShake128, 32> = Poplar1::new(len);
                    let sim: Poplar1<SimXof, 32> = Poplar1::new(len);
                    let input = crate::inst_poplar::bits_to_input(meas);
                    let a = guard("Poplar1::shard_with_random", || plain.shard_with_random(&c.0, &input, &n16, &rand.0));
                    sim_xof::install(XofCfg { tape: tape.clone(), ..Default::default() });
                    let b = guard("Poplar1<SimXof>::shard_with_random", || sim.shard_with_random(&c.0, &input, &n16, &rand.0));
                    let (a, b) = match (a, b) {
                        (Ok(Ok(a)), Ok(Ok(b))) => (a, b),
                        (Err(v), _) | (_, Err(v)) => {
                            sim_xof::take();
                            ctx.fail(v);
                            return Ok(());
                        }
                        _ => {
                            sim_xof::take();
                            return Err("poplar1 sharding failed".into());
                        }
                    };
                    let mut diff = None;
                    if a.0.get_encoded().unwrap() != b.0.get_encoded().unwrap() {
                        diff = Some("public share".to_string());
                    }
                    let plen = 1 + tape.first().copied().unwrap_or(0) as usize % len;
                    let ap = prio::vdaf::poplar1::Poplar1AggregationParam::try_from_prefixes(vec![input.prefix(plen - 1)]).map_err(|e| e.to_string())?;
                    for j in 0..2 {
                        if a.1[j].get_encoded().unwrap() != b.1[j].get_encoded().unwrap() {
                            diff = Some(format!("input share {j}"));
                        }
                        let x = guard("verify_init", || plain.verify_init(&k32, &c.0, j, &ap, &n16, &a.0, &a.1[j]));
                        let y = guard("verify_init<SimXof>", || sim.verify_init(&k32, &c.0, j, &ap, &n16, &b.0, &b.1[j]));
                        match (x, y) {
                            (Ok(Ok(x)), Ok(Ok(y))) => {
                                if x.1.get_encoded().unwrap() != y.1.get_encoded().unwrap() || x.0.get_encoded().unwrap() != y.0.get_encoded().unwrap() {
                                    diff = Some(format!("sketch share / state {j}"));
                                }
                            }
                            (Err(v), _) | (_, Err(v)) => {
                                sim_xof::take();
                                ctx.fail(v);
                                return Ok(());
                            }
                            _ => diff = Some(format!("verify_init outcome {j}")),
                        }
                    }
                    let cfg = sim_xof::take();
                    ctx.counters.add("simxof.inits", cfg.inits);
                    ctx.counters.add("simxof.pieces", cfg.pieces);
                    ctx.events += cfg.inits;
                    if let Some(d) = diff {
                        ctx.fail(Violation::new("C11.end_to_end", "poplar1", format!("Poplar1 over a re-chunking XOF: {d} differs from the plain instantiation")));
                    }
                    Ok(())
                }
                c => Err(format!("class {c} not wired for the end-to-end XOF run")),
            }
        }
    }
}

fn exec_top(p: &Plan11, counters: &mut Counters) -> Result<RunOut, String> {
    exec_top_with(p, counters, ACCEPT)
}

/// Execute a stream-world plan on behalf of another check (C01 / C03 borrow the rejection runs).
pub fn exec_top_with(p: &Plan11, counters: &mut Counters, accept: &'static [&'static str]) -> Result<RunOut, String> {
    let r = guard_run(|| {
        let mut ctx = Ctx::new(counters, accept);
        let r = exec(p, &mut ctx);
        sim_xof::take();
        r.map(|_| ctx.finish())
    });
    match r {
        Ok(x) => x,
        Err(e) => {
            sim_xof::take();
            Err(e)
        }
    }
}

impl Check for Check11 {
    fn id(&self) -> &'static str {
        "C11"
    }
    fn level(&self) -> &'static str {
        "exploration"
    }
    fn runs(&self, tier: Tier) -> u64 {
        std::env::var("VERIF_RUNS").ok().and_then(|s| s.parse().ok()).unwrap_or(match tier {
            Tier::Quick => 60_000,
            Tier::Thorough => 2_000_000,
        })
    }
    fn gen(&self, seed: u64, _run: u64, tier: Tier) -> Value {
        serde_json::to_value(gen(seed, tier)).unwrap()
    }
    fn exec(&self, plan: &Value, counters: &mut Counters) -> Result<RunOut, String> {
        let p: Plan11 = serde_json::from_value(plan.clone()).map_err(|e| e.to_string())?;
        exec_top(&p, counters)
    }
    fn gen_exec(&self, seed: u64, _run: u64, tier: Tier, counters: &mut Counters) -> Result<(RunOut, Option<Value>), String> {
        let p = gen(seed, tier);
        let out = exec_top(&p, counters)?;
        let keep = out.violation.is_some();
        Ok((out, if keep { Some(serde_json::to_value(&p).unwrap()) } else { None }))
    }
    fn shrink(&self, plan: &Value) -> Vec<Value> {
        let Ok(p) = serde_json::from_value::<Plan11>(plan.clone()) else { return Vec::new() };
        let mut out = Vec::new();
        match &p {
            Plan11::Reader { xof, seed, dst, binder, dst_cuts, binder_cuts, reads } => {
                for i in 0..reads.len() {
                    let mut r = reads.clone();
                    r.remove(i);
                    if !r.is_empty() {
                        out.push(Plan11::Reader { xof: xof.clone(), seed: seed.clone(), dst: dst.clone(), binder: binder.clone(), dst_cuts: dst_cuts.clone(), binder_cuts: binder_cuts.clone(), reads: r });
                    }
                }
                if !dst_cuts.is_empty() || !binder_cuts.is_empty() {
                    out.push(Plan11::Reader { xof: xof.clone(), seed: seed.clone(), dst: dst.clone(), binder: binder.clone(), dst_cuts: vec![], binder_cuts: vec![], reads: reads.clone() });
                }
            }
            Plan11::Sampler { field, mode, script, count, tail } => {
                if *count > 1 {
                    out.push(Plan11::Sampler { field: field.clone(), mode: mode.clone(), script: script.clone(), count: count / 2, tail: *tail });
                    out.push(Plan11::Sampler { field: field.clone(), mode: mode.clone(), script: script.clone(), count: count - 1, tail: *tail });
                }
            }
            Plan11::PoplarStream { bits, ctx, nonce, rand, meas, script, tape } => {
                let mk = |bits: u16, script: Option<(u16, Hx)>, tape: Vec<u32>, ctx: Hx| Plan11::PoplarStream { bits, ctx, nonce: nonce.clone(), rand: rand.clone(), meas: meas[..bits as usize].to_vec(), script, tape };
                if script.is_some() {
                    out.push(mk(*bits, None, tape.clone(), ctx.clone()));
                }
                if !tape.is_empty() {
                    out.push(mk(*bits, script.clone(), Vec::new(), ctx.clone()));
                }
                if !ctx.0.is_empty() {
                    out.push(mk(*bits, script.clone(), tape.clone(), Hx(Vec::new())));
                }
                for b in [*bits / 2, bits.saturating_sub(32), bits.saturating_sub(1)] {
                    if b >= 1 && b < *bits {
                        out.push(mk(b, script.clone(), tape.clone(), ctx.clone()));
                    }
                }
                if let Some((u, b)) = script {
                    if b.0.len() > 8 {
                        out.push(mk(*bits, Some((*u, Hx(b.0[..b.0.len() / 2].to_vec()))), tape.clone(), ctx.clone()));
                    }
                }
            }
            Plan11::Rejections { inst, ctx, nonce, rand, vk, meas, usage, inserts, plen } => {
                for i in 0..inserts.len() {
                    if inserts.len() > 1 {
                        let mut v = inserts.clone();
                        v.remove(i);
                        out.push(Plan11::Rejections { inst: inst.clone(), ctx: ctx.clone(), nonce: nonce.clone(), rand: rand.clone(), vk: vk.clone(), meas: meas.clone(), usage: *usage, inserts: v, plen: *plen });
                    }
                }
            }
            Plan11::EndToEnd { inst, ctx, nonce, rand, vk, meas, tape } => {
                if tape.len() > 1 {
                    out.push(Plan11::EndToEnd { inst: inst.clone(), ctx: ctx.clone(), nonce: nonce.clone(), rand: rand.clone(), vk: vk.clone(), meas: meas.clone(), tape: tape[..tape.len() / 2].to_vec() });
                }
            }
        }
        out.into_iter().map(|x| serde_json::to_value(x).unwrap()).collect()
    }
    fn rule(&self) -> String {
        "four kinds of run: (poplar stream) Poplar1 sharding for bit lengths 1..140 over a recording SimXof, optionally with one usage's streams replaced by crafted bytes (misaligned 0xff groups, over-modulus Field255 chunks, values next to p): every correlated-randomness element of both input shares recomputed from the recorded stream bytes by chunk / mask / reject on plain integers, the single sharding stream being read as Field64 elements, one Field255 element, Field64 pairs and a Field255 pair across buffer refills; (reader) seed, dst and binder split into seeded parts (empty parts, one-byte dribbles) and the stream consumed by a seeded history of fill_bytes / next_u32 / next_u64 with sizes 0,1,15,16,17,31,32,33,167,168,169,4096 for XofTurboShake128, XofHmacSha256Aes128, XofFixedKeyAes128 and XofFixedKeyAes128Key::with_seed, compared with one one-shot read, Xof::seed_stream and into_seed; (sampler) into_field_vec and IdpfValue::generate for the four fields over a scripted byte stream with over-modulus chunks at slot 0, slot 31, in runs of 2..40 and 32 apart, compared with chunk/mask/reject on plain integers, and exact per-attempt consumption for generate; (end to end) Prio3 (count, sum, sumvec, histogram, multihot) and Poplar1 instantiated over SimXof, which re-splits every init/update/fill_bytes, compared byte-for-byte with the plain instantiation; distinct = distinct (kind, parameters, read history / script shape) signatures".into()
    }
    fn assumptions(&self) -> Vec<String> {
        vec!["the reference sampler works on little-endian integers (u64/u128/byte comparison for Field255) in checks_c11.rs".into(), "the one-shot stream of the same library XOF is the reference for chunking independence (the XOF primitive itself is not re-implemented)".into()]
    }
    fn components(&self) -> Value {
        json!({"real": ["XofTurboShake128, XofHmacSha256Aes128, XofFixedKeyAes128, XofFixedKeyAes128Key and their seed streams", "Prng (through IntoFieldVec::into_field_vec)", "FieldElement generate_random (through IdpfValue::generate)", "Prio3 / Poplar1 generic over the Xof trait"], "stub": ["SimXof (re-chunking wrapper over XofTurboShake128)", "ScriptRng", "reader and reference sampler"]})
    }
    fn inapplicable_faults(&self) -> Vec<String> {
        vec!["reader faults (EINTR, short reads, I/O errors): seed streams are infallible in-memory generators; only the HISTORY of read sizes and splits is a degree of freedom".into(), "network / crash / clock faults: none of the objects involved has such a surface".into()]
    }
}
