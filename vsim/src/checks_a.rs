//! Checks that run in world A with Prio3 instances: C01 C02 C07 C08 C13 C17 C18 (Prio3 parts).

use crate::core::*;
use crate::inst::{dispatch, gen_prio3_inst, Adapter, BuildErr, Inst, Kind, ShardErr, SimVdaf, Visitor};
use crate::model;
use crate::rng::Rng;
use crate::util::{Counters, Hx, H64, N};
use crate::world_a::*;
use serde_json::{json, Value};

pub fn checks() -> Vec<Box<dyn Check>> {
    vec![
        Box::new(CheckA { id: "C01", accept: &["C01.", "panic"], level: "exploration" }),
        Box::new(CheckA { id: "C02", accept: &["C02.", "panic"], level: "fault_enumeration" }),
        Box::new(CheckA { id: "C03", accept: &["C03.", "panic"], level: "exploration" }),
        Box::new(CheckA { id: "C04", accept: &["C04.", "panic"], level: "fault_enumeration" }),
        Box::new(CheckA { id: "C13", accept: &["C13.", "panic"], level: "exploration" }),
        Box::new(CheckA { id: "C18", accept: &["C18.", "panic"], level: "fault_enumeration" }),
    ]
}

pub struct CheckA {
    pub id: &'static str,
    pub accept: &'static [&'static str],
    pub level: &'static str,
}

fn pick_ctx(rng: &mut Rng) -> Vec<u8> {
    match rng.below(5) {
        0 => Vec::new(),
        1 => {
            let n = 300 + rng.usize_below(40);
            rng.bytes(n)
        }
        _ => {
            let n = 1 + rng.usize_below(16);
            rng.bytes(n)
        }
    }
}

pub fn gen_agg_plan(rng: &mut Rng, n: usize, reports: usize, refusals: bool) -> AggPlan {
    let mut a = AggPlan::default();
    for _ in 0..n {
        let nb = 1 + rng.usize_below(reports.clamp(1, 4));
        a.batches.push(nb as u8);
        a.batch_of.push((0..reports).map(|_| rng.below(nb as u64) as u8).collect());
        a.order.push((0..(3 * reports + 12)).map(|_| rng.u32()).collect());
    }
    a.identities = rng.chance(1, 3);
    a.collect_order = (0..n).map(|_| rng.u32()).collect();
    a.refusals = refusals;
    a
}

fn gen_reports(inst: &Inst, rng: &mut Rng, k: usize) -> Vec<Rep> {
    (0..k)
        .map(|_| Rep { nonce: Hx(rng.bytes(16)), rand: Hx(rng.bytes(model::rand_len(inst))), meas: model::gen_meas(inst, rng), evil: false, twin: None, byz: Vec::new() })
        .collect()
}

fn gen_noise(rng: &mut Rng, plan: &mut PlanA) {
    let n = plan.inst.n as usize;
    let reports = plan.reports.len();
    // duplicates that the drivers absorb (scheduling noise), crashes with restart
    for _ in 0..rng.below(3) {
        let rep = rng.below(reports as u64) as u32;
        let j = rng.below(n as u64) as u8;
        if rng.chance(1, 2) {
            plan.faults.push(Fault { kind: EnvKind::Upload, rep, ap: 0, from: CLIENT, to: j, round: 0, at_source: false, act: Act::Dup });
        } else {
            plan.faults.push(Fault { kind: EnvKind::VMsg, rep, ap: 0, from: COMBINER, to: j, round: 0, at_source: false, act: Act::Dup });
        }
    }
    let events = reports * (3 * n) + 4;
    for _ in 0..rng.below(3) {
        plan.crashes.push(Crash { step: rng.below(events as u64) as u32, node: rng.below(n as u64) as u8, recompute: rng.chance(1, 2) });
    }
    if rng.chance(4, 5) {
        plan.choices = (0..events + 8).map(|_| rng.u32()).collect();
    }
    // the same process also works for other tasks in between (multi-tenant client / aggregator)
    if rng.chance(1, 3) {
        for _ in 0..1 + rng.below(3) {
            let f = gen_foreign(rng, plan, events as u32);
            plan.foreign.push(f);
        }
    }
}

/// Interleaved work for another task: same instance under another context, or another instance of the same class;
/// preferably with the nonce of one of this run's reports.
pub fn gen_foreign(rng: &mut Rng, plan: &PlanA, events: u32) -> Foreign {
    let own = &plan.inst;
    let other: Option<Inst> = if rng.chance(1, 2) {
        None
    } else {
        match own.class.as_str() {
            "poplar1" => {
                let mut o = crate::inst_poplar::gen_poplar_inst(rng, false);
                o.len = o.len.min(64);
                Some(o)
            }
            "prio2" => {
                // lengths that share the power-of-two proof size with this run's length, or any other small length
                let mut o = own.clone();
                o.len = match rng.below(3) {
                    0 => own.len + 1 + rng.below(4) as u32,
                    1 => own.len.saturating_sub(1 + rng.below(4) as u32).max(1),
                    _ => 1 + rng.below(64) as u32,
                };
                Some(o)
            }
            _ => {
                let mut found = None;
                for _ in 0..40 {
                    let mut o = gen_prio3_inst(rng, true, own.mt);
                    if o.class == own.class {
                        o.mt = own.mt;
                        o.xof = own.xof.clone();
                        found = Some(o);
                        break;
                    }
                }
                found
            }
        }
    };
    let used = other.clone().unwrap_or_else(|| own.clone());
    let cl = 1 + rng.usize_below(8);
    let mut ctx = rng.bytes(cl);
    if ctx == plan.ctx.0 {
        ctx.push(1);
    }
    Foreign {
        at: rng.below(events.max(1) as u64) as u32,
        ctx: Hx(if other.is_some() && rng.chance(1, 2) { plan.ctx.0.clone() } else { ctx }),
        nonce_of: if rng.chance(2, 3) { Some(rng.below(plan.reports.len().max(1) as u64) as u32) } else { None },
        nonce: Hx(rng.bytes(16)),
        meas: model::gen_meas(&used, rng),
        rand: Hx(rng.bytes(model::rand_len(&used))),
        depth: rng.below(2) as u8,
        other,
    }
}

fn gen_mutation(rng: &mut Rng, raw_bias: bool) -> Mutation {
    if rng.chance(1, 10) {
        // alterations that cancel under a folding comparison: the same mask in two bytes (adjacent, or anywhere), a swap
        let gap = if rng.chance(1, 2) { 0 } else { rng.u32() as u16 };
        return if rng.chance(2, 3) { Mutation::Xor2 { pos: rng.u32(), gap, mask: *rng.pick(&[1u8, 0x80, 0xff, 0x10]) } } else { Mutation::Swap { pos: rng.u32(), gap } };
    }
    let w: [u32; 6] = if raw_bias { [4, 3, 3, 3, 2, 3] } else { [3, 2, 1, 1, 5, 1] };
    match rng.weighted(&w) {
        0 => Mutation::Flip { pos: rng.u32(), bit: rng.below(8) as u8 },
        1 => Mutation::Set { pos: rng.u32(), val: *rng.pick(&[0u8, 0xff, 1, 0x80]) ^ if rng.chance(1, 3) { rng.below(256) as u8 } else { 0 } },
        // emptied now and then: an empty message is the one truncation a length-driven decoder may take for 'absent'
        2 => Mutation::Trunc { keep: if rng.chance(1, 4) { 0 } else { rng.u32() } },
        3 => {
            let n = 1 + rng.usize_below(9);
            Mutation::Extend { extra: Hx(rng.bytes(n)) }
        }
        4 => Mutation::FieldAdd {
            region: rng.u32(),
            elem: rng.u32(),
            delta: N(match rng.below(4) {
                0 => 1,
                1 => model::P128 - 1, // reduces to -1 mod p for every field (p | handled by % p at exec)
                2 => 2,
                _ => rng.u128(),
            }),
        },
        _ => Mutation::FieldSet {
            region: rng.u32(),
            elem: rng.u32(),
            raw: Hx(match rng.below(3) {
                0 => vec![0xff; 16],
                1 => {
                    // exactly p for the 64-bit field, and a value >= p for the 128-bit field
                    let mut v = model::P64.to_le_bytes()[..8].to_vec();
                    v.extend_from_slice(&[0xff; 8]);
                    v
                }
                _ => rng.bytes(16),
            }),
        },
    }
}

fn gen_tamper_fault(rng: &mut Rng, plan: &PlanA, raw_bias: bool) -> Fault {
    let n = plan.inst.n as usize;
    let reports = plan.reports.len() as u32;
    let rep = rng.below(reports as u64) as u32;
    let j = rng.below(n as u64) as u8;
    let jr = plan.inst.has_joint_rand();
    // target classes: public@source, public@link, input, vshare, vmsg, drop, dup, splice
    let w: [u32; 9] = [if jr { 2 } else { 0 }, if jr { 2 } else { 0 }, 6, 5, if jr { 3 } else { 1 }, 1, 1, if reports > 1 { 1 } else { 0 }, 1];
    match rng.weighted(&w) {
        0 => Fault { kind: EnvKind::Upload, rep, ap: 0, from: CLIENT, to: 0, round: 0, at_source: true, act: Act::Mutate { part: 0, m: gen_mutation(rng, true) } },
        1 => Fault { kind: EnvKind::Upload, rep, ap: 0, from: CLIENT, to: j, round: 0, at_source: false, act: Act::Mutate { part: 0, m: gen_mutation(rng, true) } },
        2 => {
            // leader shares are the interesting ones for field-aware alteration
            let to = if rng.chance(1, 2) { 0 } else { j };
            Fault { kind: EnvKind::Upload, rep, ap: 0, from: CLIENT, to, round: 0, at_source: false, act: Act::Mutate { part: 1, m: gen_mutation(rng, raw_bias || to != 0) } }
        }
        3 => Fault { kind: EnvKind::VShare, rep, ap: 0, from: j, to: COMBINER, round: 0, at_source: false, act: Act::Mutate { part: 0, m: gen_mutation(rng, raw_bias) } },
        4 => Fault { kind: EnvKind::VMsg, rep, ap: 0, from: COMBINER, to: j, round: 0, at_source: false, act: Act::Mutate { part: 0, m: gen_mutation(rng, true) } },
        5 => Fault { kind: EnvKind::VShare, rep, ap: 0, from: j, to: COMBINER, round: 0, at_source: false, act: Act::Drop },
        6 => Fault { kind: EnvKind::VShare, rep, ap: 0, from: j, to: COMBINER, round: 0, at_source: false, act: Act::Dup },
        8 => Fault { kind: EnvKind::VShare, rep, ap: 0, from: j, to: COMBINER, round: 0, at_source: false, act: Act::DupZero },
        _ => {
            let rep2 = (rep + 1 + rng.below(reports as u64 - 1) as u32) % reports;
            Fault { kind: EnvKind::VShare, rep, ap: 0, from: j, to: COMBINER, round: 0, at_source: false, act: Act::Splice { rep2 } }
        }
    }
}

pub fn base_plan(inst: Inst, mode: &str, rng: &mut Rng, reports: usize) -> PlanA {
    let mut inst = inst;
    crate::inst::pick_xof(rng, &mut inst);
    let reps = gen_reports(&inst, rng, reports);
    let n = inst.n as usize;
    let mut ctx = pick_ctx(rng);
    if inst.xof == "hmac" {
        // XofHmacSha256Aes128 documents a 255-byte limit on the domain-separation tag (8 bytes + context)
        ctx.truncate(200);
    }
    PlanA {
        mode: mode.to_string(),
        ctx: Hx(ctx),
        vk: Hx(rng.bytes(inst.seed_size())),
        confirm: vec![Hx(rng.bytes(inst.seed_size())), Hx(rng.bytes(inst.seed_size()))],
        reports: reps,
        aps: vec![Vec::new()],
        faults: Vec::new(),
        crashes: Vec::new(),
        choices: Vec::new(),
        agg: gen_agg_plan(rng, n, reports, false),
        skew: None,
        skew2: None,
        foreign: Vec::new(),
        cross_client: inst.is_prio3() && inst.named && inst.proofs == 1 && inst.xof.is_empty() && rng.chance(1, 3),
        timeouts: false,
        store_faults: Vec::new(),
        storage: Vec::new(),
        bit_offsets: if inst.class == "poplar1" && rng.chance(1, 4) { (0..2 + rng.usize_below(7)).map(|_| if rng.chance(1, 3) { 0 } else { rng.below(64) as u8 }).collect() } else { Vec::new() },
        inst,
    }
}

fn gen_plan(id: &str, seed: u64, run: u64, tier: Tier) -> PlanA {
    let mut p = gen_plan_inner(id, seed, run, tier);
    // the tampering / Byzantine / skew / aggregation configurations also run in processes that serve other tasks:
    // a fifth of them get foreign work interleaved (own generator stream, so the rest of the plan is unchanged)
    if p.foreign.is_empty() && p.mode != "hh" {
        let mut r2 = Rng::new(seed ^ 0xF0E1_D2C3_B4A5_9687);
        if r2.chance(1, 5) {
            let events = (p.reports.len() * p.aps.len().max(1) * (3 * p.inst.n as usize) + 4) as u32;
            for _ in 0..1 + r2.below(2) {
                let f = gen_foreign(&mut r2, &p, events);
                p.foreign.push(f);
            }
        }
    }
    p
}

fn gen_plan_inner(id: &str, seed: u64, _run: u64, tier: Tier) -> PlanA {
    let mut rng = Rng::new(seed);
    let rng = &mut rng;
    match id {
        "C01" => {
            let big = tier == Tier::Thorough || rng.chance(1, 3);
            let inst = gen_prio3_inst(rng, !big, true);
            let k = 1 + rng.usize_below(if inst.n > 17 || inst.proofs > 5 { 2 } else { 6 });
            let mut p = base_plan(inst, "honest", rng, k);
            gen_noise(rng, &mut p);
            p
        }
        "C03" => {
            let deep = rng.chance(1, if tier == Tier::Thorough { 400 } else { 4000 });
            let inst = crate::inst_poplar::gen_poplar_inst(rng, deep);
            let bits = inst.len as usize;
            let k = if deep { 1 } else { 1 + rng.usize_below(8) };
            let mut p = base_plan(inst, "honest", rng, k);
            // planted heavy hitters: a few base strings, repeated
            let nbase = 1 + rng.usize_below(3);
            let bases: Vec<Vec<N>> = (0..nbase).map(|_| (0..bits).map(|_| N(rng.below(2) as u128)).collect()).collect();
            for r in p.reports.iter_mut() {
                if rng.chance(3, 4) {
                    r.meas = bases[rng.usize_below(nbase)].clone();
                }
            }
            let inputs: Vec<Vec<N>> = p.reports.iter().map(|r| r.meas.clone()).collect();
            if deep {
                // deep levels: one or two prefixes at a level beyond 21845 / at the leaf
                let plen = *rng.pick(&[bits, bits, bits.min(21_846), bits.min(21_847), bits.min(40_000), 1]);
                p.aps = vec![crate::inst_poplar::gen_prefixes(rng, &inputs, plen, 2, None)];
            } else if bits <= 8 && rng.chance(1, 4) {
                p.mode = "hh".into();
                p.aps = vec![vec!["0".into(), "1".into()]];
                // threshold in `agg.batches[0]`-independent field: reuse `inst.weight`
                p.inst.weight = 1 + rng.below(k as u64) as u32;
            } else if bits >= 7 && rng.chance(1, 10) {
                // one long candidate list (65 .. 700 prefixes: more than any evaluation window, run or cache size a
                // refactor might introduce), a run of consecutive prefixes around one report's path, at an inner or
                // the leaf level
                let plen = (7 + rng.usize_below(4)).min(bits);
                let total = 1usize << plen;
                let want = (*rng.pick(&[65usize, 100, 128, 129, 200, 256, 257, 300, 512, 513, 700])).min(total);
                let m = &inputs[rng.usize_below(inputs.len())];
                let on: usize = m[..plen].iter().fold(0usize, |a, b| (a << 1) | (b.0 != 0) as usize);
                let at = rng.usize_below(want);
                let lo = on.saturating_sub(at).min(total - want);
                p.aps = vec![(lo..lo + want).map(|v| (0..plen).map(|i| if (v >> (plen - 1 - i)) & 1 == 1 { '1' } else { '0' }).collect()).collect()];
            } else {
                p.aps = crate::inst_poplar::gen_ap_history(rng, &p.inst, &inputs, 4, 12);
            }
            // two candidates whose cache keys have equal STORAGE WORDS unless keys are re-aligned:
            // A = 0^o X tA (aligned) and B = X 0^o tB handed over at storage offset o; at depth
            // m = o + |X| the live bits of both keys occupy the same word positions. A report on the
            // path A[..m] tB makes a confusion of the two nodes visible in the counts.
            if p.mode != "hh" && p.aps.len() == 1 && rng.chance(1, 4) {
                let n = p.aps[0][0].len();
                if (3..=48).contains(&n) {
                    // the cache is probed at depths n-1, n-2, ... and (ring of capacity = number of
                    // candidates) holds only the deepest nodes of the previous evaluation
                    let m = if n >= 4 && rng.chance(1, 4) { n - 2 } else { n - 1 };
                    let o = 1 + rng.usize_below(m - 1);
                    let mut x: String = (0..m - o).map(|_| if rng.chance(1, 2) { '1' } else { '0' }).collect();
                    x.pop();
                    x.push('1');
                    let ta: String = (0..n - m).map(|_| if rng.chance(1, 2) { '1' } else { '0' }).collect();
                    let tb: String = (0..n - m).map(|_| if rng.chance(1, 2) { '1' } else { '0' }).collect();
                    let a = format!("{}{}{}", "0".repeat(o), x, ta);
                    let b = format!("{}{}{}", x, "0".repeat(o), tb);
                    if a != b {
                        let mut set: Vec<String> = vec![a.clone(), b.clone()];
                        if rng.chance(1, 2) {
                            set.extend(p.aps[0].iter().take(2).cloned());
                        }
                        set.sort();
                        set.dedup();
                        p.aps[0] = set;
                        let junk: String = (0..o).map(|_| if rng.chance(1, 2) { '1' } else { '0' }).collect();
                        p.storage.push((b, o as u8, junk));
                        // plant a measurement below A[..m] ++ tB
                        let planted: String = format!("{}{}", &a[..m], tb);
                        let r0 = &mut p.reports[0];
                        for (i, c) in planted.bytes().enumerate() {
                            r0.meas[i] = N((c == b'1') as u128);
                        }
                    }
                }
            }
            gen_noise(rng, &mut p);
            // noise faults are keyed on ap 0 / round 0 only; add a few for later rounds and params
            for _ in 0..rng.below(3) {
                let rep = rng.below(p.reports.len() as u64) as u32;
                let ap = rng.below(p.aps.len() as u64) as u32;
                p.faults.push(Fault { kind: EnvKind::VMsg, rep, ap, from: COMBINER, to: rng.below(2) as u8, round: rng.below(2) as u8, at_source: false, act: Act::Dup });
            }
            let events = p.reports.len() * p.aps.len() * 10 + 8;
            if rng.chance(4, 5) {
                p.choices = (0..events).map(|_| rng.u32()).collect();
                for c in p.crashes.iter_mut() {
                    c.step = rng.below(events as u64) as u32;
                }
            }
            p
        }
        "C04" => {
            let mut inst = crate::inst_poplar::gen_poplar_inst(rng, false);
            inst.len = *rng.pick(&[1u32, 2, 2, 3, 3, 4, 5, 6, 8, 8, 16, 16, 33, 64]);
            let bits = inst.len as usize;
            let k = 1 + rng.usize_below(3);
            let style = rng.below(10);
            let byz = style < 5;
            let both = style == 9;
            let mut p = base_plan(inst, if byz || both { "byz" } else { "tamper" }, rng, k);
            p.timeouts = true;
            let inputs: Vec<Vec<N>> = p.reports.iter().map(|r| r.meas.clone()).collect();
            // candidates: usually include the victim's path
            p.aps = crate::inst_poplar::gen_ap_history(rng, &p.inst, &inputs, 2, 6);
            // "split the one" over a long candidate list (> 32 candidates): a dedicated shape
            let split = byz && bits >= 8 && rng.chance(1, 3);
            if split {
                let victim = 0usize;
                // an inner level (prefix shorter than the input)
                let plen = 7 + rng.usize_below((bits - 7).min(3));
                let dist = *rng.pick(&[32usize, 32, 32, 1, 16, 31, 33, 40]);
                let half = 1usize << (plen - 1);
                let first_bit = rng.chance(1, 2);
                // rank of the on-path prefix inside its half, leaving room for `dist - 1` neighbours
                let rank = if first_bit { dist - 1 + rng.usize_below(half - dist + 1) } else { rng.usize_below(half - dist + 1) };
                let to_bits = |first: bool, r: usize| -> String { std::iter::once(if first { '1' } else { '0' }).chain((0..plen - 1).map(|i| if (r >> (plen - 2 - i)) & 1 == 1 { '1' } else { '0' })).collect() };
                let ppre = to_bits(first_bit, rank);
                let dpre = to_bits(!first_bit, rng.usize_below(half));
                let mut cands: Vec<String> = if first_bit { (rank + 1 - dist..rank).map(|r| to_bits(true, r)).collect() } else { (rank + 1..rank + dist).map(|r| to_bits(false, r)).collect() };
                cands.push(ppre.clone());
                cands.push(dpre);
                cands.sort();
                p.aps = vec![cands];
                // the Byzantine client picks its own measurement: put it on that path
                let mut m: Vec<N> = ppre.bytes().map(|c| N((c == b'1') as u128)).collect();
                while m.len() < bits {
                    m.push(N(rng.below(2) as u128));
                }
                p.reports[victim].meas = m;
                p.reports[victim].byz.push(ByzEdit::SplitOne { flip_level: 0, dist: dist as u16 });
            }
            // long candidate lists (65 .. 300 candidates, more than any plausible evaluation window / cache size) with
            // the victim's on-path prefix at a seeded rank; sometimes exactly one candidate
            let long = !split && bits >= 8 && rng.chance(1, 5);
            let single = !split && !long && rng.chance(1, 6);
            let victim_pre = rng.usize_below(k);
            if long {
                let plen = (7 + rng.usize_below(3)).min(bits);
                let total = 1usize << plen;
                let want = (65 + rng.usize_below(236)).min(total);
                let m = &p.reports[victim_pre].meas;
                let on: usize = m[..plen].iter().fold(0usize, |a, b| (a << 1) | (b.0 != 0) as usize);
                // a window of `want` consecutive prefixes that contains the on-path one at rank `at`
                let at = rng.usize_below(want);
                let lo = on.saturating_sub(at).min(total - want);
                let mut cands: Vec<String> = (lo..lo + want).map(|v| (0..plen).map(|i| if (v >> (plen - 1 - i)) & 1 == 1 { '1' } else { '0' }).collect()).collect();
                if rng.chance(1, 3) {
                    // thin it out, keeping the on-path prefix and at least 65 candidates
                    let onp: String = (0..plen).map(|i| if (on >> (plen - 1 - i)) & 1 == 1 { '1' } else { '0' }).collect();
                    let mut kept: Vec<String> = Vec::new();
                    for c in cands.iter() {
                        if *c == onp || cands.len() - kept.len() <= 65 || rng.chance(4, 5) {
                            kept.push(c.clone());
                        }
                    }
                    if kept.len() >= 65 {
                        cands = kept;
                    }
                }
                p.aps = vec![cands];
            } else if single {
                let plen = 1 + rng.usize_below(bits);
                let m = &p.reports[victim_pre].meas;
                p.aps = vec![vec![crate::inst_poplar::bits_to_string(&m[..plen])]];
            }
            let naps = p.aps.len() as u32;
            if (byz || both) && !split {
                let victim = if long || single { victim_pre } else { rng.usize_below(k) };
                let ne = if rng.chance(3, 4) { 1 } else { 2 };
                for _ in 0..ne {
                    // aim at a queried level most of the time
                    let qlevel = (p.aps[rng.usize_below(p.aps.len())][0].len() - 1) as u16;
                    let level = if rng.chance(3, 4) { qlevel } else { rng.below(bits as u64) as u16 };
                    let e = match rng.below(12) {
                        10 | 11 => ByzEdit::GuessR { level, beta: rng.pick(&["2", "-1", "rand"]).to_string(), guess: *rng.pick(&[1u8, 1, 2, 0]) },
                        0..=4 => ByzEdit::Payload { level, beta: rng.pick(&["0", "2", "-1", "rand", "1", "2", "rand"]).to_string(), consistent: rng.chance(2, 3) },
                        5 => ByzEdit::SeedCw { m: gen_mutation(rng, true) },
                        6 | 7 => ByzEdit::CorrShare { agg: rng.below(2) as u8, level, which: rng.below(2) as u8, delta: N(rng.u128()) },
                        _ => ByzEdit::KeyBytes { agg: rng.below(2) as u8, which: rng.below(2) as u8, m: Mutation::Flip { pos: rng.u32(), bit: rng.below(8) as u8 } },
                    };
                    p.reports[victim].byz.push(e);
                }
            }
            if !byz {
                let nf = if rng.chance(7, 10) { 1 } else { 2 + rng.usize_below(2) };
                for _ in 0..nf {
                    let rep = rng.below(k as u64) as u32;
                    let ap = rng.below(naps as u64) as u32;
                    let j = rng.below(2) as u8;
                    let round = rng.below(2) as u8;
                    let f = match rng.below(14) {
                        12 | 13 => {
                            // the verifier message altered before fan-out; emptied now and then
                            let m = if rng.chance(1, 2) { Mutation::Trunc { keep: 0 } } else { gen_mutation(rng, false) };
                            Fault { kind: EnvKind::VMsg, rep, ap, from: COMBINER, to: 0, round, at_source: true, act: Act::Mutate { part: 0, m } }
                        }
                        0 => Fault { kind: EnvKind::Upload, rep, ap: 0, from: CLIENT, to: 0, round: 0, at_source: true, act: Act::Mutate { part: 0, m: gen_mutation(rng, false) } },
                        1 => Fault { kind: EnvKind::Upload, rep, ap: 0, from: CLIENT, to: j, round: 0, at_source: false, act: Act::Mutate { part: 0, m: gen_mutation(rng, false) } },
                        2..=4 => Fault { kind: EnvKind::Upload, rep, ap: 0, from: CLIENT, to: j, round: 0, at_source: false, act: Act::Mutate { part: 1, m: gen_mutation(rng, false) } },
                        5..=7 => Fault { kind: EnvKind::VShare, rep, ap, from: j, to: COMBINER, round, at_source: false, act: Act::Mutate { part: 0, m: gen_mutation(rng, false) } },
                        8 | 9 => Fault { kind: EnvKind::VMsg, rep, ap, from: COMBINER, to: j, round, at_source: false, act: Act::Mutate { part: 0, m: gen_mutation(rng, false) } },
                        10 => Fault { kind: EnvKind::VShare, rep, ap, from: j, to: COMBINER, round, at_source: false, act: if rng.chance(1, 2) { Act::Drop } else { Act::Dup } },
                        _ => {
                            if k > 1 {
                                let rep2 = (rep + 1 + rng.below(k as u64 - 1) as u32) % k as u32;
                                Fault { kind: EnvKind::VShare, rep, ap, from: j, to: COMBINER, round, at_source: false, act: Act::Splice { rep2 } }
                            } else {
                                Fault { kind: EnvKind::VShare, rep, ap, from: j, to: COMBINER, round, at_source: false, act: Act::DupZero }
                            }
                        }
                    };
                    p.faults.push(f);
                }
            }
            // the same alteration on BOTH senders' verifier shares of one round (emptied, truncated, extended, a byte
            // set): what one sender's share cannot do alone, two equal ones sometimes can
            if !byz && rng.chance(1, 8) {
                let rep = rng.below(k as u64) as u32;
                let ap = rng.below(naps as u64) as u32;
                let round = rng.below(2) as u8;
                let m = match rng.below(4) {
                    0 | 1 => Mutation::Trunc { keep: 0 },
                    2 => Mutation::Trunc { keep: rng.u32() },
                    _ => gen_mutation(rng, true),
                };
                for j in 0..2u8 {
                    p.faults.push(Fault { kind: EnvKind::VShare, rep, ap, from: j, to: COMBINER, round, at_source: false, act: Act::Mutate { part: 0, m: m.clone() } });
                }
            }
            // a client that makes ONE aggregator's round-two share trivially zero (A = B = 0 at the queried level)
            // and an adversary that loses the other aggregator's share of that round
            if (byz || both) && !split && rng.chance(1, 8) {
                let victim = if long || single { victim_pre } else { 0 };
                let api = rng.usize_below(p.aps.len());
                let level = (p.aps[api][0].len() - 1) as u16;
                let agg = rng.below(2) as u8;
                if p.reports[victim].byz.is_empty() {
                    p.reports[victim].byz.push(ByzEdit::Payload { level, beta: rng.pick(&["2", "-1", "rand"]).to_string(), consistent: true });
                }
                p.reports[victim].byz.push(ByzEdit::ZeroCorr { agg, level });
                p.faults.push(Fault { kind: EnvKind::VShare, rep: victim as u32, ap: api as u32, from: 1 - agg, to: COMBINER, round: 1, at_source: false, act: Act::Drop });
                p.timeouts = true;
            }
            let events = k * p.aps.len() * 12 + 8;
            if rng.chance(1, 2) {
                p.choices = (0..events).map(|_| rng.u32()).collect();
            }
            if rng.chance(1, 4) {
                p.crashes.push(Crash { step: rng.below(events as u64) as u32, node: rng.below(2) as u8, recompute: rng.chance(1, 2) });
            }
            p
        }
        "C13" => {
            let which = rng.below(10);
            let inst = if which < 6 {
                gen_prio3_inst(rng, true, true)
            } else if which < 8 {
                let mut i = crate::inst_poplar::gen_poplar_inst(rng, false);
                i.len = i.len.min(16);
                i
            } else {
                crate::inst_prio2::gen_prio2_inst(rng, true)
            };
            let k = 2 + rng.usize_below(7);
            let mut p = base_plan(inst, "honest", rng, k);
            if p.inst.class == "poplar1" {
                // inner and leaf levels (the two aggregate-share kinds)
                let inputs: Vec<Vec<N>> = p.reports.iter().map(|r| r.meas.clone()).collect();
                let bits = p.inst.len as usize;
                let plen = if rng.chance(1, 2) { bits } else { 1 + rng.usize_below(bits) };
                p.aps = vec![crate::inst_poplar::gen_prefixes(rng, &inputs, plen, 6, None)];
            }
            p.agg = gen_agg_plan(rng, p.inst.n as usize, k, true);
            gen_noise(rng, &mut p);
            p
        }
        "C02" => {
            let mut inst = gen_prio3_inst(rng, true, true);
            if inst.n > 8 {
                inst.n = 2 + rng.below(5) as u8;
            }
            // a twelfth of the runs: the harness's two-gadget circuit (the shipped circuits all have one gadget)
            let cube = rng.chance(1, 12);
            if cube {
                inst = Inst { class: "cube".into(), n: 2 + rng.below(3) as u8, proofs: 1 + rng.below(2) as u8, max: N(1), len: 2, chunk: 1, weight: 1, mt: false, named: false, xof: String::new() };
            }
            let k = 1 + rng.usize_below(3);
            if rng.chance(2, 5) {
                // Byzantine client
                let mut p = base_plan(inst, "byz", rng, k);
                let victim = rng.usize_below(k);
                if rng.chance(1, 6) {
                    // stub fidelity: a valid encoding through the Evil seam
                    let m = model::gen_meas(&p.inst, rng);
                    p.reports[victim].twin = Some(m.clone());
                    p.reports[victim].meas = model::encode_raw(&p.inst, &m).unwrap();
                    p.reports[victim].evil = true;
                } else {
                    let (raw, _) = model::gen_invalid_raw(&p.inst, rng);
                    // a client that also forges one element of its own proof: for the two-gadget circuit the forged
                    // amount is the one by which y misses x^3 (what a cheater would try), at a seeded proof element
                    if cube && rng.chance(2, 3) {
                        let pm = model::modulus(&p.inst);
                        let x = raw[0].0 % pm;
                        let d = if x < (1 << 40) { model::sub_mod(raw[1].0 % pm, x * x * x % pm, pm) } else { 0 };
                        let delta = if d != 0 && rng.chance(3, 4) { d } else { *rng.pick(&[1u128, 2, pm - 1]) };
                        p.faults.push(Fault { kind: EnvKind::Upload, rep: victim as u32, ap: 0, from: CLIENT, to: 0, round: 0, at_source: false, act: Act::Mutate { part: 1, m: Mutation::FieldAdd { region: 1, elem: rng.u32(), delta: N(delta) } } });
                    }
                    p.reports[victim].meas = raw;
                    p.reports[victim].evil = true;
                }
                gen_noise(rng, &mut p);
                p
            } else {
                let mut p = base_plan(inst, "tamper", rng, k);
                p.timeouts = true;
                let nf = if rng.chance(7, 10) { 1 } else { 2 + rng.usize_below(2) };
                for _ in 0..nf {
                    let f = gen_tamper_fault(rng, &p, false);
                    p.faults.push(f);
                }
                if rng.chance(1, 2) {
                    let events = k * 3 * p.inst.n as usize + 8;
                    p.choices = (0..events).map(|_| rng.u32()).collect();
                }
                if rng.chance(1, 4) {
                    p.crashes.push(Crash { step: rng.below(12) as u32, node: rng.below(p.inst.n as u64) as u8, recompute: rng.chance(1, 2) });
                }
                p
            }
        }
        "C18" => {
            let mut inst = if rng.chance(1, 4) {
                let mut i = crate::inst_poplar::gen_poplar_inst(rng, false);
                i.len = i.len.min(16);
                i
            } else {
                gen_prio3_inst(rng, true, false)
            };
            if inst.n > 6 {
                inst.n = 2 + rng.below(5) as u8;
            }
            let n = inst.n;
            let k = 1 + rng.usize_below(2);
            let mut p = base_plan(inst, "skew", rng, k);
            if p.inst.class == "poplar1" {
                // query the report's own path so that a mismatch has something to break
                let inputs: Vec<Vec<N>> = p.reports.iter().map(|r| r.meas.clone()).collect();
                let bits = p.inst.len as usize;
                let plen = if rng.chance(1, 2) { bits } else { 1 + rng.usize_below(bits) };
                let mut ap: Vec<String> = inputs.iter().map(|m| crate::inst_poplar::bits_to_string(&m[..plen])).collect();
                ap.sort();
                ap.dedup();
                p.aps = vec![ap];
            }
            let prio3 = p.inst.is_prio3();
            let first = gen_skew(rng, &p, n, prio3, "");
            // combined mismatches: a second, simultaneous skew of another kind
            if rng.chance(1, 4) {
                let second = gen_skew(rng, &p, n, prio3, &first.what);
                p.skew2 = Some(second);
            }
            p.skew = Some(first);
            p
        }
        _ => unreachable!(),
    }
}

struct ExecVis<'a> {
    plan: &'a PlanA,
    counters: &'a mut Counters,
    accept: &'static [&'static str],
    id: &'static str,
}

fn all_finished(v: &[JobEnd]) -> bool {
    v.iter().all(|e| matches!(e, JobEnd::Finished(_)))
}

impl<'a> Visitor for ExecVis<'a> {
    type Out = Result<RunOut, String>;
    fn visit<V, A, const VK: usize>(self, vdaf: &V, ad: &A) -> Self::Out
    where
        V: SimVdaf<VK>,
        A: Adapter<V>,
    {
        let plan = self.plan;
        let mut ctx = Ctx::new(self.counters, self.accept);
        ctx.sig.str(self.id).str(&plan.inst.label()).str(&plan.mode).u64(plan.inst.n.min(9) as u64).u64((plan.inst.proofs > 1) as u64).u64(plan.reports.len().min(4) as u64);
        ctx.counters.inc(&format!("class.{}", plan.inst.label()));
        if plan.inst.n >= 3 {
            ctx.probe("helper_index_ge_2");
        }
        if plan.inst.proofs > 1 {
            ctx.probe("num_proofs_gt_1");
        }
        if plan.inst.has_joint_rand() {
            ctx.probe("joint_rand_type");
            let il = model::input_len(&plan.inst);
            if il % plan.inst.chunk as usize != 0 {
                ctx.probe("chunk_not_dividing_input_len");
            }
            if plan.inst.chunk as usize > il {
                ctx.probe("chunk_gt_input_len");
            }
        } else {
            ctx.probe("no_joint_rand_type");
        }
        if plan.inst.n >= 64 {
            ctx.probe("aggregators_ge_64");
        }
        if matches!(plan.inst.class.as_str(), "sum" | "sumvec" | "sumvec64" | "avg" | "l1") {
            let m = plan.inst.max.0;
            if m == model::modulus(&plan.inst) - 1 {
                ctx.probe("bound_p_minus_1");
            } else if (m + 1).is_power_of_two() {
                ctx.probe("bound_2k_minus_1");
            } else if m.is_power_of_two() {
                ctx.probe("bound_2k");
            }
        }
        // algorithm-identifier skew: the named aggregators run the same instance under another identifier
        let alt_owned: Option<V> = match plan.skew.iter().chain(plan.skew2.iter()).find(|s| s.what == "alg") {
            Some(s) => {
                let mut x = [0u8; 4];
                for (a, b) in x.iter_mut().zip(s.value.0.iter()) {
                    *a = *b;
                }
                match ad.alt_algorithm(vdaf, u32::from_be_bytes(x)) {
                    Some(a) => Some(a),
                    None => return Err("algorithm-identifier skew on an instance class that has no alternative instance".into()),
                }
            }
            None => None,
        };
        let alt = alt_owned.as_ref();
        let pass = match World::<V, A, VK>::new(vdaf, ad, plan, &mut ctx, &plan.vk.0) {
            Ok(w) => w.with_alt(alt).run(),
            Err(e) if e == "VIOLATION-RECORDED" => return Ok(ctx.finish()),
            Err(e) => return Err(e),
        };
        // outcome class into the signature
        for f in &plan.faults {
            ctx.sig.str(&format!("{:?}{:?}", f.kind, std::mem::discriminant(&f.act)));
            if let Act::Mutate { m, part } = &f.act {
                ctx.sig.u64(*part as u64).str(&format!("{:?}", std::mem::discriminant(m)));
            }
        }
        let fin: usize = pass.jobs.values().filter(|v| all_finished(v)).count();
        ctx.sig.u64(fin as u64).u64(pass.effective.len() as u64).u64(plan.crashes.len() as u64);
        if ctx.failed() {
            return Ok(ctx.finish());
        }
        let rerun = |key: &[u8], counters: &mut Counters| -> Result<PassOut, String> {
            let mut c2 = Ctx::new(counters, &[]);
            Ok(World::<V, A, VK>::new(vdaf, ad, plan, &mut c2, key)?.with_alt(alt).run())
        };
        // stub fidelity: a valid encoding sharded through the Evil seam gives the honest bytes
        for (i, rep) in plan.reports.iter().enumerate() {
            if let (true, Some(twin)) = (rep.evil, &rep.twin) {
                let mut nonce = [0u8; 16];
                nonce.copy_from_slice(&rep.nonce.0);
                ctx.counters.inc("byz.fidelity_checks");
                match (ad.shard(vdaf, &plan.ctx.0, twin, &nonce, &rep.rand.0, false), pass.shards.get(i)) {
                    (Ok((pb, ib)), Some(Some((pb2, ib2)))) => {
                        if pb != *pb2 || ib != *ib2 {
                            if plan.inst.named && plan.inst.proofs == 1 {
                                // the aggregators' instance came from a named constructor, the seam's from the explicitly built
                                // type with the same documented parameters: they must be the same VDAF
                                ctx.fail(Violation::new(&format!("{}.fidelity", robust_id(&plan.inst)), "named_constructor_differs".to_string(), format!("the instance built by the named constructor shards the valid measurement {:?} differently from the explicitly built type with the same parameters ({})", &twin[..twin.len().min(8)], plan.inst.label())));
                                return Ok(ctx.finish());
                            }
                            return Err(format!("Evil<T> seam is not faithful: shares differ from the honest client's for measurement {twin:?}"));
                        }
                    }
                    (Err(crate::inst::ShardErr::Refused(e)), _) => {
                        // the twin is a valid measurement: the honest client must be able to shard it
                        ctx.fail(Violation::new(&format!("{}.collateral", robust_id(&plan.inst)), "twin_shard_refused".to_string(), format!("sharding refused the valid measurement {:?}: {e}", &twin[..twin.len().min(8)])));
                        return Ok(ctx.finish());
                    }
                    (Err(crate::inst::ShardErr::Panic(v)), _) => {
                        ctx.fail(v);
                        return Ok(ctx.finish());
                    }
                    _ => return Err("Evil<T> fidelity: sharding failed".into()),
                }
            }
        }
        match plan.mode.as_str() {
            "hh" => {
                // the collector's iterative heavy-hitters procedure, level by level, each level a
                // full world pass over the same stored reports
                judge_honest(plan, &pass, &mut ctx);
                let bits = plan.inst.len as usize;
                let threshold = plan.inst.weight as u128;
                let mut cur = plan.clone();
                let mut res = pass.results.first().cloned().flatten();
                let mut level = 0usize;
                let mut hitters: Vec<String> = Vec::new();
                loop {
                    if ctx.failed() {
                        break;
                    }
                    let Some((counts, _)) = res.clone() else { break };
                    let keep: Vec<String> = cur.aps[0].iter().zip(counts.iter()).filter(|(_, c)| **c >= threshold).map(|(p, _)| p.clone()).collect();
                    if level + 1 == bits {
                        hitters = keep;
                        break;
                    }
                    if keep.is_empty() {
                        break;
                    }
                    let mut next: Vec<String> = keep.iter().flat_map(|p| [format!("{p}0"), format!("{p}1")]).collect();
                    next.sort();
                    cur.aps = vec![next];
                    cur.faults.clear();
                    level += 1;
                    let pass2 = World::<V, A, VK>::new(vdaf, ad, &cur, &mut ctx, &plan.vk.0)?.run();
                    judge_honest(&cur, &pass2, &mut ctx);
                    res = pass2.results.first().cloned().flatten();
                    ctx.probe("heavy_hitters_level");
                }
                if !ctx.failed() {
                    // brute force
                    let mut cnt: std::collections::BTreeMap<String, u128> = std::collections::BTreeMap::new();
                    for r in &plan.reports {
                        *cnt.entry(crate::inst_poplar::bits_to_string(&r.meas)).or_default() += 1;
                    }
                    let want: Vec<String> = cnt.into_iter().filter(|(_, c)| *c >= threshold).map(|(s, _)| s).collect();
                    if hitters != want {
                        ctx.fail(Violation::new("C03.heavy_hitters", "hh|differs", format!("heavy hitters {hitters:?} != brute force {want:?} (threshold {threshold})")));
                    }
                    ctx.counters.inc("c03.heavy_hitter_runs");
                }
            }
            "codec" => {}
            "honest" => judge_honest(plan, &pass, &mut ctx),
            "tamper" | "byz" => judge_robust(plan, &pass, &mut ctx, ad, &rerun)?,
            "skew" => judge_skew(plan, &pass, &mut ctx, &rerun, vdaf, ad)?,
            m => return Err(format!("unknown mode {m}")),
        }
        Ok(ctx.finish())
    }
}

pub fn honest_id(inst: &Inst) -> &'static str {
    match inst.class.as_str() {
        "poplar1" => "C03",
        "prio2" => "C19",
        _ => "C01",
    }
}
pub fn robust_id(inst: &Inst) -> &'static str {
    match inst.class.as_str() {
        "poplar1" => "C04",
        "prio2" => "C19",
        _ => "C02",
    }
}

fn judge_honest(plan: &PlanA, pass: &PassOut, ctx: &mut Ctx) {
    let hid = honest_id(&plan.inst);
    for (i, r) in pass.shard_refused.iter().enumerate() {
        if let Some(e) = r {
            ctx.fail(Violation::new(&format!("{hid}.shard"), "shard|refused", format!("sharding refused in-range measurement {:?} of report {i}: {e}", plan.reports[i].meas)));
            return;
        }
    }
    for ((rep, ap), v) in &pass.jobs {
        for (j, e) in v.iter().enumerate() {
            match e {
                JobEnd::Finished(_) => {}
                JobEnd::Failed(why) => {
                    ctx.fail(Violation::new(&format!("{hid}.accept"), "honest|rejected", format!("honest report {rep} (agg param {ap}) rejected at aggregator {j}: {why}")));
                    return;
                }
                JobEnd::Running => {
                    ctx.fail(Violation::new(&format!("{hid}.accept"), "honest|stuck", format!("honest report {rep} (agg param {ap}) never finished at aggregator {j}")));
                    return;
                }
            }
        }
    }
    for (ap, r) in pass.results.iter().enumerate() {
        let Some((got, included)) = r else {
            ctx.fail(Violation::new(&format!("{hid}.aggregate"), "honest|no_result", format!("no aggregate result for agg param {ap}")));
            return;
        };
        let ms: Vec<Vec<N>> = included.iter().map(|r| plan.reports[*r as usize].meas.clone()).collect();
        let want = model::reference(&plan.inst, &ms, &plan.aps[ap]);
        if *got != want {
            ctx.fail(Violation::new(&format!("{hid}.aggregate"), "honest|wrong_aggregate", format!("aggregate result {:?} != plain aggregate {:?} over {} reports", got, want, ms.len())));
            return;
        }
        ctx.counters.inc("c01.aggregates_checked");
    }
}

/// Robust + strict + Byzantine-client oracles, with three-key confirmation.
fn judge_robust<V: prio::vdaf::Vdaf, A: Adapter<V>>(plan: &PlanA, pass: &PassOut, ctx: &mut Ctx, ad: &A, rerun: &dyn Fn(&[u8], &mut Counters) -> Result<PassOut, String>) -> Result<(), String> {
    let rid = robust_id(&plan.inst);
    // candidate violations under the first key
    let mut cands: Vec<(u32, u32, String, String)> = Vec::new();
    let flag = |pass: &PassOut, ctx: &mut Ctx, record: bool| -> Vec<(u32, u32, String, String)> {
        let mut out = Vec::new();
        let touches = |e: &EffFault, rep: u32, ap: u32| e.rep == rep && e.ap.map(|a| a == ap).unwrap_or(true);
        for ((rep, ap), v) in &pass.jobs {
            let fin = all_finished(v);
            let r = &plan.reports[*rep as usize];
            let apspec = &plan.aps[*ap as usize];
            let mine: Vec<&EffFault> = pass.effective.iter().filter(|e| touches(e, *rep, *ap)).collect();
            // the single effective alteration of the run, if it is one the strict oracle covers for THIS job
            // (only for a report the client built honestly: an in-flight alteration can cancel a Byzantine client's own edit)
            let honest_client = r.byz.is_empty() && (!r.evil || r.twin.is_some());
            let strict_fault: Option<&EffFault> = if honest_client && pass.effective.len() == 1 && mine.len() == 1 && !mine[0].exempt && mine[0].site.as_ref().map(|s| ad.strict_applies(s, apspec, &r.meas)).unwrap_or(true) { Some(mine[0]) } else { None };
            let label = pass.byz_labels.get(*rep as usize).and_then(|l| l.iter().find(|x| x.ap == *ap));
            // a round in which EVERY sender's verifier share was replaced by the one it produced for one and the same
            // other report: the combiner then decides about that other report. No VDAF can be robust against a
            // wholesale substitution of the aggregators' own traffic (they are assumed to talk over authenticated
            // channels), so the robust oracle is not applied to such a job.
            let nagg = v.len();
            let transplanted = mine.iter().filter_map(|e| e.transplant).any(|(_, round, src)| (0..nagg as u8).all(|j| mine.iter().any(|e| e.transplant == Some((j, round, src)))));
            // likewise a round in which one sender's share was lost AND an extra (duplicated or all-zero) share was
            // injected: together they substitute a forged share for a genuine one
            let substituted = mine.iter().filter_map(|e| e.subst).any(|(k, round)| k == 0 && mine.iter().any(|e| e.subst == Some((1, round))));
            let transplanted = transplanted || substituted;
            if fin && transplanted && record {
                ctx.counters.inc("robust.not_judged_complete_verifier_share_transplant");
            }
            if fin {
                // robust: outputs sum to the truncation of a valid encoding
                let outs: Vec<Vec<u8>> = v.iter().filter_map(|e| if let JobEnd::Finished(b) = e { Some(b.clone()) } else { None }).collect();
                let (fs, p) = ad.out_field(apspec);
                if let Some(sum) = sum_outputs(&outs, fs, p).filter(|_| !transplanted) {
                    if !model::output_valid(&plan.inst, &sum, apspec) {
                        out.push((*rep, *ap, format!("{rid}.robust"), format!("all aggregators finished report {rep} (agg param {ap}) but the output shares sum to {:?}, not {}", &sum[..sum.len().min(12)], if plan.inst.class == "poplar1" { "a zero or one-hot 0/1 vector" } else { "the truncation of a valid encoding" })));
                    }
                    if record {
                        ctx.counters.inc("c02.robust_checked");
                    }
                }
                // Byzantine client with an invalid vector must be rejected
                if r.evil && r.twin.is_none() && plan.inst.class != "poplar1" && !transplanted {
                    out.push((*rep, *ap, format!("{rid}.byz"), format!("invalid encoded measurement {:?}… with an honest proof was accepted by all aggregators", &r.meas[..r.meas.len().min(12)])));
                }
                if let Some(l) = label {
                    if l.must_reject && mine.is_empty() {
                        out.push((*rep, *ap, format!("{rid}.byz"), format!("a maliciously built report was accepted by both aggregators: {}", l.desc)));
                    }
                }
                if let Some(f) = strict_fault {
                    out.push((*rep, *ap, format!("{rid}.strict"), format!("a single alteration ({}) left verification complete at all aggregators", f.desc)));
                }
            } else if r.evil && r.twin.is_some() && pass.effective.is_empty() {
                out.push((*rep, *ap, format!("{rid}.fidelity"), "valid encoding through the Byzantine-client seam was rejected".into()));
            } else if !r.evil && r.byz.is_empty() && mine.is_empty() {
                // an untouched honest job in a tampering run must still be accepted
                out.push((*rep, *ap, format!("{rid}.collateral"), format!("honest report {rep} (agg param {ap}) untouched by any alteration was not accepted")));
            }
            if record {
                if ((r.evil && r.twin.is_none()) || label.map(|l| l.must_reject).unwrap_or(false)) && !fin {
                    ctx.counters.inc("c02.byz_rejected");
                }
                if label.map(|l| !l.must_reject).unwrap_or(false) {
                    ctx.counters.inc(if fin { "c04.byz_acceptable_accepted" } else { "c04.byz_acceptable_rejected" });
                }
                if !fin && strict_fault.is_some() {
                    ctx.counters.inc("c02.strict_rejected");
                }
                if let Some(f) = mine.first() {
                    if pass.effective.len() == 1 && strict_fault.is_none() && !f.exempt {
                        ctx.counters.inc(if fin { "c04.nonstrict_single_accepted" } else { "c04.nonstrict_single_rejected" });
                    }
                }
            }
        }
        out
    };
    cands.extend(flag(pass, ctx, true));
    if pass.effective.len() > 1 {
        ctx.probe("multi_alteration");
    }
    if pass.effective.iter().any(|e| e.exempt) {
        ctx.probe("exempt_own_joint_rand_part");
    }
    if cands.is_empty() {
        return Ok(());
    }
    // three-key confirmation (deterministic oracles such as fidelity/collateral are key-independent
    // too, so confirming them costs nothing and changes nothing)
    let mut confirmed = cands.clone();
    for k in &plan.confirm {
        let mut scratch = Counters::default();
        let p2 = rerun(&k.0, &mut scratch)?;
        let mut c2 = Ctx::new(&mut scratch, &[]);
        let f2 = flag(&p2, &mut c2, false);
        confirmed.retain(|c| f2.iter().any(|d| d.0 == c.0 && d.1 == c.1 && d.2 == c.2));
        if confirmed.is_empty() {
            break;
        }
    }
    if confirmed.is_empty() {
        ctx.probe("soundness_coincidence_not_confirmed");
        return Ok(());
    }
    let c = &confirmed[0];
    ctx.fail(Violation::new(&c.2, format!("{}|{}", c.2, plan.inst.class), format!("{} (confirmed under 3 independent verification keys)", c.3)));
    Ok(())
}

/// One configuration mismatch (C18): what, at whom, and the substituted value.
fn gen_skew(rng: &mut Rng, p: &PlanA, n: u8, prio3: bool, not_what: &str) -> Skew {
    let what = loop {
        let w = *rng.pick(&["ctx", "vk", "nonce", "nonce", "id", "id", "alg"]);
        if w == not_what || (w == "alg" && !prio3) {
            continue;
        }
        break w;
    };
    let all = rng.chance(1, 2);
    let who = if all { Vec::new() } else { vec![rng.below(n as u64) as u8] };
    let value = match what {
        "ctx" => {
            // a different context: flip, extend, truncate or replace
            let mut c = p.ctx.0.clone();
            match rng.below(4) {
                0 if !c.is_empty() => {
                    let i = rng.usize_below(c.len());
                    c[i] ^= 1 << rng.below(8);
                }
                1 => c.push(rng.below(256) as u8),
                2 if !c.is_empty() => {
                    c.pop();
                }
                _ => {
                    let l = 1 + rng.usize_below(8);
                    c = rng.bytes(l);
                    if c == p.ctx.0 {
                        c.push(1);
                    }
                }
            }
            c
        }
        "id" => Vec::new(),
        "alg" => {
            // xor mask of the 32-bit algorithm identifier: one bit (any byte), or anything non-zero
            let m: u32 = if rng.chance(1, 2) { 1 << rng.below(32) } else { rng.u32() | 1 };
            m.to_be_bytes().to_vec()
        }
        _ => {
            // xor mask, non-zero
            let len = if what == "vk" { p.vk.0.len() } else { 16 };
            let mut m = vec![0u8; len];
            if rng.chance(1, 2) {
                m[rng.usize_below(len)] = 1 << rng.below(8);
            } else {
                m = rng.bytes(len);
                m[0] |= 1;
            }
            m
        }
    };
    let mut ids: Vec<u8> = (0..n).collect();
    if what == "id" {
        match rng.below(3) {
            0 => {
                // two aggregators swap identifiers
                let a = rng.usize_below(n as usize);
                let b = (a + 1 + rng.usize_below(n as usize - 1)) % n as usize;
                ids.swap(a, b);
            }
            1 => {
                // one aggregator takes another's identifier
                let a = rng.usize_below(n as usize);
                let b = (a + 1 + rng.usize_below(n as usize - 1)) % n as usize;
                ids[a] = b as u8;
            }
            _ => {
                // rotate everybody
                ids.rotate_left(1);
            }
        }
    }
    let mut id_offset = 0u64;
    let mut object_level = false;
    if what == "id" {
        object_level = rng.chance(1, 3);
        if rng.chance(1, 4) {
            // identifiers that agree with the true ones in the low byte only
            id_offset = *rng.pick(&[256u64, 512, 65_536, 1 << 32]);
            if rng.chance(1, 2) {
                ids = (0..n).collect();
            }
        }
    }
    Skew { what: what.to_string(), who, value: Hx(value), ids, id_offset, object_level }
}

fn judge_skew<V: SimVdaf<VK>, A: Adapter<V>, const VK: usize>(plan: &PlanA, pass: &PassOut, ctx: &mut Ctx, rerun: &dyn Fn(&[u8], &mut Counters) -> Result<PassOut, String>, vdaf: &V, ad: &A) -> Result<(), String> {
    let skews: Vec<&Skew> = plan.skew.iter().chain(plan.skew2.iter()).collect();
    if skews.is_empty() {
        return Ok(());
    }
    if skews.len() > 1 {
        ctx.probe("combined_mismatch");
    }
    let jr = plan.inst.has_joint_rand();
    // components that are no mismatch by the property's own wording:
    //  * the stated exception: the same substituted nonce at all aggregators, Prio3 type without joint randomness
    //  * the same substituted verification key at ALL aggregators: the key is the aggregators' own secret
    //    (the client never sees it), so "all use another key" is no mismatch at all
    let inert = |s: &Skew| (s.what == "nonce" && s.who.is_empty() && !jr && plan.inst.is_prio3()) || (s.what == "vk" && s.who.is_empty());
    for s in &skews {
        ctx.fault(&format!("skew.{}{}", s.what, if s.who.is_empty() { ".all" } else { ".one" }));
    }
    let describe = || skews.iter().map(|s| format!("{} (who={:?}, ids={:?})", s.what, s.who, s.ids)).collect::<Vec<_>>().join(" + ");
    if skews.iter().all(|s| inert(s)) {
        if skews.iter().any(|s| s.what == "nonce") {
            ctx.probe("nonce_exception_checked");
        }
        if skews.iter().any(|s| s.what == "vk") {
            ctx.counters.inc("skew.vk_all_is_no_mismatch");
        }
        // must finish with output shares identical to the unskewed run
        let mut unskewed = plan.clone();
        unskewed.skew = None;
        unskewed.skew2 = None;
        let mut scratch = Counters::default();
        let mut c2 = Ctx::new(&mut scratch, &[]);
        let base = World::<V, A, VK>::new(vdaf, ad, &unskewed, &mut c2, &plan.vk.0)?.run();
        let only_vk = skews.iter().all(|s| s.what == "vk");
        for ((rep, ap), v) in &pass.jobs {
            if !all_finished(v) {
                if only_vk {
                    ctx.fail(Violation::new("C18.consistent_key", "skew|vk_all", format!("report {rep}/{ap} rejected although all aggregators share one verification key")));
                } else {
                    ctx.fail(Violation::new("C18.exception", "skew|nonce_exception_rejected", format!("nonce substituted consistently at all aggregators, type without joint randomness: report {rep} rejected")));
                }
                return Ok(());
            }
            if base.jobs.get(&(*rep, *ap)) != Some(v) {
                ctx.fail(Violation::new("C18.exception", "skew|nonce_exception_outputs", format!("a consistently substituted {} changed the output shares of report {rep}", describe())));
                return Ok(());
            }
        }
        return Ok(());
    }
    let flag = |p: &PassOut| -> Vec<(u32, u32)> { p.jobs.iter().filter(|(_, v)| all_finished(v)).map(|(k, _)| *k).collect() };
    let mut cands = flag(pass);
    if cands.is_empty() {
        ctx.counters.inc("c18.mismatch_rejected");
        return Ok(());
    }
    // Confirmation under independent keys guards against soundness coincidences, which only the 32-bit field of
    // Prio2 makes likely; C18 runs Prio3 and Poplar1 (fields of >= 64 bits, coincidence < 2^-50). Re-running under
    // other keys would, on the contrary, hide a binding that is lost through state keyed by the verification key.
    if plan.inst.class == "prio2" {
        for k in &plan.confirm {
            let mut scratch = Counters::default();
            let p2 = rerun(&k.0, &mut scratch)?;
            let f2 = flag(&p2);
            cands.retain(|c| f2.contains(c));
            if cands.is_empty() {
                break;
            }
        }
        if cands.is_empty() {
            ctx.probe("soundness_coincidence_not_confirmed");
            return Ok(());
        }
    }
    let what = skews.iter().filter(|s| !inert(s)).map(|s| s.what.as_str()).collect::<Vec<_>>().join("+");
    ctx.fail(Violation::new(
        "C18.binding",
        format!("C18.binding|{}|{}", what, if jr { "jr" } else { "nojr" }),
        format!("verification completed at all aggregators despite a mismatch of {} for report {}", describe(), cands[0].0),
    ));
    Ok(())
}

impl Check for CheckA {
    fn id(&self) -> &'static str {
        self.id
    }
    fn level(&self) -> &'static str {
        self.level
    }
    fn runs(&self, tier: Tier) -> u64 {
        let q = match self.id {
            "C01" => 24_000,
            "C04" => 24_000,
            "C03" => 12_000,
            "C02" => 30_000,
            "C13" => 20_000,
            "C18" => 20_000,
            _ => 10_000,
        };
        let env = std::env::var("VERIF_RUNS").ok().and_then(|s| s.parse::<u64>().ok());
        env.unwrap_or(match tier {
            Tier::Quick => q,
            Tier::Thorough => q * 25,
        })
    }
    fn gen(&self, seed: u64, run: u64, tier: Tier) -> Value {
        if let Some(p) = xof_plan(self.id, seed) {
            return json!({ "xof": p });
        }
        serde_json::to_value(gen_plan(self.id, seed, run, tier)).unwrap()
    }
    fn exec(&self, plan: &Value, counters: &mut Counters) -> Result<RunOut, String> {
        if let Some(x) = plan.get("xof") {
            let p: crate::checks_c11::Plan11 = serde_json::from_value(x.clone()).map_err(|e| format!("bad plan: {e}"))?;
            return exec_xof_plan(self.id, &p, counters);
        }
        let plan: PlanA = serde_json::from_value(plan.clone()).map_err(|e| format!("bad plan: {e}"))?;
        exec_plan_a(self.id, self.accept, &plan, counters)
    }
    fn gen_exec(&self, seed: u64, run: u64, tier: Tier, counters: &mut Counters) -> Result<(RunOut, Option<Value>), String> {
        if let Some(p) = xof_plan(self.id, seed) {
            let out = exec_xof_plan(self.id, &p, counters)?;
            let keep = out.violation.is_some();
            return Ok((out, if keep { Some(json!({ "xof": p })) } else { None }));
        }
        let plan = gen_plan(self.id, seed, run, tier);
        let out = exec_plan_a(self.id, self.accept, &plan, counters)?;
        let keep = out.violation.is_some();
        Ok((out, if keep { Some(serde_json::to_value(&plan).unwrap()) } else { None }))
    }
    fn fixed_plans(&self, _tier: Tier) -> Vec<Value> {
        if self.id != "C03" {
            return Vec::new();
        }
        // deep Poplar1 instances at the level boundaries the seeded search reaches only rarely
        let mut out = Vec::new();
        let mut rng = Rng::new(0xC03);
        for (bits, plen) in [(21_850u32, 21_846usize), (21_850, 21_847), (21_850, 21_850), (65_536, 65_536), (65_536, 40_000), (300, 300), (1, 1)] {
            let mut inst = crate::inst_poplar::gen_poplar_inst(&mut rng, false);
            inst.len = bits;
            let mut p = base_plan(inst, "honest", &mut rng, 1);
            let inputs: Vec<Vec<N>> = p.reports.iter().map(|r| r.meas.clone()).collect();
            p.aps = vec![crate::inst_poplar::gen_prefixes(&mut rng, &inputs, plen, 2, None)];
            out.push(serde_json::to_value(p).unwrap());
        }
        out
    }
    fn shrink(&self, plan: &Value) -> Vec<Value> {
        if plan.get("xof").is_some() {
            return Vec::new();
        }
        let Ok(p) = serde_json::from_value::<PlanA>(plan.clone()) else { return Vec::new() };
        shrink_plan_a(&p).into_iter().map(|x| serde_json::to_value(x).unwrap()).collect()
    }
    fn rule(&self) -> String {
        match self.id {
            "C01" => "seeded swarm over Prio3 instance classes x parameters x batches (a quarter of the instances over XofHmacSha256Aes128 or XofFixedKeyAes128 with 16-byte seeds; named and generic constructors, a third of the named instances served by a client on the generic-constructor twin), executed as a multi-party run over the simulated transport with reordering, absorbed duplicates, crash/restart from encoded state and, in a third of the runs, foreign work interleaved between the run's own library calls (sharding / verify_init of another task's report by the same thread: other context with the same nonce, or another instance of the same class); distinct = distinct (class, n, multiproof, reports, fault-kind sequence, outcome) signatures among runs that executed >= 1 verify_init".into(),
            "C02" => "all shipped XOFs and the multithreaded variants; Byzantine client (library sharding over a raw invalid vector via the Evil<T> seam) or 1..3 alterations (bit/byte/same mask in two bytes/byte swap/truncate/extend/field-element add/non-canonical set, drop, extra share, cross-report splice) at every message class; robust, strict (single alteration) and must-reject oracles with 3-key confirmation; distinct = distinct (class, n, fault sequence incl. message class and mutation kind, outcome) signatures".into(),
            "C03" => "seeded Poplar1 runs (bits 1..256, rare deep instances up to 2^16) over the simulated transport, a third of them with foreign work interleaved between the run's own library calls (another task's report under another context with the same nonce, or a Poplar1 instance of another bit length, sharded / verify_init-ed by the same thread): batches with planted heavy hitters, admissible histories of 1..4 aggregation parameters on the same stored reports, both rounds through the wire, crash/restart between rounds, absorbed duplicates; prefix counts vs brute force; iterative heavy-hitters vs brute force; distinct as C01".into(),
            "C04" => "Poplar1 world-A runs (bits 1..64, 1..3 reports, 1..2 aggregation parameters) with either a Byzantine client built by rewriting an honest report on the wire before fan-out (on-path value re-programmed to beta in {0,1,2,-1,random} with a consistent or inconsistent authenticator; seed / control-bit correction words mutated; A/B shares altered; IDPF key or correlated-randomness seed bytes flipped) and LABELLED by re-evaluating both keys over the candidates with the library's own Idpf::eval, or 1..3 in-flight alterations of public share, input shares, round-one / round-two sketch shares and sketch messages (plus drop / extra / spliced shares); robust (zero or one-hot 0/1), must-reject (label) and strict (single alteration where the sketch algebra guarantees it) oracles with 3-key confirmation; distinct as C02".into(),
            "C13" => "fault-free world-A runs with 2..8 reports; per aggregator a seeded partition into batches, accumulate order, merge tree, identity merges; bytes compared with single-pass aggregate; mismatched shares (one element short / long, other tree level) offered by accumulate, merge and the batch entry point to the running aggregate and FIRST to a fresh aggregate that then takes the good batch (must equal the single pass); wrong-length refusals; distinct as C01".into(),
            "C18" => "configuration skew drawn at world creation: ctx / verify key / nonce / algorithm identifier (Prio3: the named aggregators run the same type under another 32-bit identifier) at one or all aggregators, identifier swap/steal/rotation incl. identifiers that agree only in the low byte and object-level skew; a quarter of the runs combine two mismatches of different kinds; oracle: some aggregator fails (3-key confirmation), or — when every component is the stated nonce exception or a key shared by all aggregators — verification finishes with output shares identical to the unskewed run".into(),
            _ => String::new(),
        }
    }
    fn assumptions(&self) -> Vec<String> {
        vec![
            "field arithmetic, NTT and XOF primitives are exercised but not independently modelled (C09/C10 are not claimed)".into(),
            "reference aggregates are computed on u128 integers mod p by harness code (model.rs)".into(),
            "thin drivers (world_a.rs) dedupe by sender and round; everything else reaching a library call is unfiltered".into(),
            "seeded search samples schedules, parameters and fault positions; a clean batch is evidence, not proof".into(),
        ]
    }
    fn components(&self) -> Value {
        json!({
            "real": ["Prio3 shard_with_random / verify_init / verifier_shares_to_message / verify_next / aggregate / merge / unshard", "all message and state codecs", "FLP types and gadgets", "XofTurboShake128"],
            "stub": ["transport (in-memory queue of byte envelopes)", "durable store (encoded bytes per node)", "scheduler / fault injector", "aggregator, combiner, collector drivers", "Evil<T> measurement encoder (identity) for the Byzantine client", "simrayon single-thread stand-in for rayon (multithreaded variants)"]
        })
    }
}

/// C01 / C03 borrow the stream world's "spliced rejections" runs (one run in 25): a whole honest
/// protocol run over SimXof in which every party sees extra over-modulus chunks in the streams of
/// one derivation, so sampling across rejections must agree between client and aggregators.
fn xof_plan(id: &str, seed: u64) -> Option<crate::checks_c11::Plan11> {
    if id != "C01" && id != "C03" {
        return None;
    }
    let mut rng = Rng::new(seed ^ 0x5eed_0f_0a11);
    if !rng.chance(1, 25) {
        return None;
    }
    Some(crate::checks_c11::gen_rejections(&mut rng, id == "C03"))
}

fn exec_xof_plan(id: &'static str, p: &crate::checks_c11::Plan11, counters: &mut Counters) -> Result<RunOut, String> {
    let mut out = crate::checks_c11::exec_top_with(p, counters, &["C11.rejections", "C11.reference_run", "panic"])?;
    if let Some(v) = out.violation.as_mut() {
        v.oracle = v.oracle.replace("C11.", &format!("{id}."));
    }
    Ok(out)
}

pub fn exec_plan_a(id: &'static str, accept: &'static [&'static str], plan: &PlanA, counters: &mut Counters) -> Result<RunOut, String> {
    crate::inst_poplar::set_offsets(plan.bit_offsets.clone());
    crate::inst_poplar::set_storage(&plan.storage);
    let r = {
        let vis = ExecVis { plan, counters: &mut *counters, accept, id };
        guard_run(|| dispatch(&plan.inst, vis))
    };
    let unaligned = crate::inst_poplar::clear_offsets();
    crate::inst_poplar::set_storage(&[]);
    if unaligned > 0 {
        counters.add("probe.unaligned_idpf_input_storage", unaligned);
    }
    match r {
        Err(e) => Err(e),
        Ok(Ok(r)) => r,
        Ok(Err(BuildErr::Refused(e))) => {
            // the generators only produce admissible instances: a refusal is the library's
            let mut c = Counters::default();
            let mut ctx = Ctx::new(&mut c, accept);
            ctx.nontrivial = true;
            ctx.fail(Violation::new(&format!("{}.instance_refused", honest_id(&plan.inst)), format!("ctor|{}", plan.inst.class), format!("the constructor refuses the admissible instance {:?}: {e}", plan.inst)));
            Ok(ctx.finish())
        }
        Ok(Err(BuildErr::Panic(v))) => {
            // a constructor panic on generated (in-domain) parameters is a violation, reported if accepted
            let mut c = Counters::default();
            let mut ctx = Ctx::new(&mut c, accept);
            ctx.fail(v);
            Ok(ctx.finish())
        }
        Ok(Err(BuildErr::Unknown(e))) => Err(e),
    }
}

/// Candidate simplifications of a world-A plan.
pub fn shrink_plan_a(p: &PlanA) -> Vec<PlanA> {
    let mut out = Vec::new();
    if !p.bit_offsets.is_empty() {
        let mut q = p.clone();
        q.bit_offsets.clear();
        out.push(q);
    }
    if !p.storage.is_empty() {
        let mut q = p.clone();
        q.storage.clear();
        out.push(q);
    }
    // drop faults, crashes
    for i in 0..p.faults.len() {
        let mut q = p.clone();
        q.faults.remove(i);
        out.push(q);
    }
    for i in 0..p.crashes.len() {
        let mut q = p.clone();
        q.crashes.remove(i);
        out.push(q);
    }
    if !p.choices.is_empty() {
        let mut q = p.clone();
        q.choices.clear();
        out.push(q);
    }
    // drop reports (renumber fault references)
    if p.reports.len() > 1 {
        for i in 0..p.reports.len() {
            let mut q = p.clone();
            q.reports.remove(i);
            q.faults.retain(|f| f.rep as usize != i && !matches!(f.act, Act::Splice { rep2 } if rep2 as usize == i));
            for f in q.faults.iter_mut() {
                if f.rep as usize > i {
                    f.rep -= 1;
                }
                if let Act::Splice { rep2 } = &mut f.act {
                    if *rep2 as usize > i {
                        *rep2 -= 1;
                    }
                }
            }
            out.push(q);
        }
    }
    // simpler aggregation plan
    if p.agg.batches.iter().any(|b| *b > 1) || p.agg.identities {
        let mut q = p.clone();
        q.agg.batches.iter_mut().for_each(|b| *b = 1);
        q.agg.identities = false;
        out.push(q);
    }
    // parameter shrinks
    let regen = |q: &mut PlanA| {
        // keep measurements only if still in range; otherwise clamp
        for r in q.reports.iter_mut() {
            r.rand = Hx(r.rand.0.iter().cycle().take(model::rand_len(&q.inst)).cloned().collect());
        }
    };
    if p.inst.n > 2 && p.skew.is_none() {
        let mut q = p.clone();
        q.inst.n = 2;
        q.faults.retain(|f| (f.to < 2 || f.to >= 254) && (f.from < 2 || f.from >= 254));
        q.crashes.retain(|c| c.node < 2);
        q.agg = AggPlan::default();
        regen(&mut q);
        out.push(q);
    }
    if p.inst.proofs > 1 && p.inst.class != "sumvec64" {
        let mut q = p.clone();
        q.inst.proofs = 1;
        out.push(q);
    }
    for i in 0..p.foreign.len() {
        let mut q = p.clone();
        q.foreign.remove(i);
        out.push(q);
    }
    if p.cross_client {
        let mut q = p.clone();
        q.cross_client = false;
        out.push(q);
    }
    if p.skew2.is_some() {
        // a combined mismatch: try either component alone
        let mut q = p.clone();
        q.skew2 = None;
        out.push(q);
        let mut q = p.clone();
        q.skew = q.skew2.take();
        out.push(q);
    }
    if p.ctx.0.len() > 1 && !p.skew.iter().chain(p.skew2.iter()).any(|s| s.what == "ctx") {
        let mut q = p.clone();
        q.ctx = Hx(vec![1]);
        out.push(q);
    }
    if p.inst.chunk > 1 && !p.reports.iter().any(|r| r.evil) {
        let mut q = p.clone();
        q.inst.chunk = 1;
        out.push(q);
    }
    out
}

// keep unused imports honest
#[allow(dead_code)]
fn _unused(_: Kind, _: ShardErr, _: H64) {}
