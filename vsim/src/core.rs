//! Framework core: the Check interface, per-run context, panic containment, violation type.

use crate::util::{Counters, H64};
use serde::{Deserialize, Serialize};
use serde_json::Value;
use std::cell::RefCell;
use std::collections::BTreeSet;

#[derive(Clone, Copy, Debug, PartialEq, Eq)]
pub enum Tier {
    Quick,
    Thorough,
}
impl Tier {
    pub fn name(self) -> &'static str {
        match self {
            Tier::Quick => "quick",
            Tier::Thorough => "thorough",
        }
    }
    pub fn parse(s: &str) -> Option<Tier> {
        match s {
            "quick" => Some(Tier::Quick),
            "thorough" => Some(Tier::Thorough),
            _ => None,
        }
    }
}

#[derive(Clone, Debug, Serialize, Deserialize, PartialEq, Eq)]
pub struct Violation {
    /// oracle id, e.g. "C02.strict", "panic", "C07.reencode"
    pub oracle: String,
    /// stable signature used for known-finding matching (no line numbers, digits normalised)
    pub signature: String,
    /// human-readable detail
    pub detail: String,
}

impl Violation {
    pub fn new(oracle: &str, signature: impl Into<String>, detail: impl Into<String>) -> Self {
        // details may quote measurements: keep them bounded (plans with 2^18-entry vectors exist)
        let mut detail: String = detail.into();
        if detail.len() > 1500 {
            let mut cut = 1500;
            while !detail.is_char_boundary(cut) {
                cut -= 1;
            }
            detail.truncate(cut);
            detail.push('…');
        }
        Violation { oracle: oracle.to_string(), signature: signature.into(), detail }
    }
}

/// What one executed plan produced.
#[derive(Clone, Debug, Default)]
pub struct RunOut {
    pub violation: Option<Violation>,
    /// signature of the case class; 0 = trivial (no library verification call ran)
    pub sig: u64,
    /// digest of everything observable in the run (event log); equal seeds must give equal digests
    pub trace: u64,
    /// simulated events executed ("simulated time" is the event count)
    pub events: u64,
}

/// Per-run context handed to world executors.
pub struct Ctx<'a> {
    pub counters: &'a mut Counters,
    pub trace: H64,
    pub sig: H64,
    pub nontrivial: bool,
    pub events: u64,
    pub violation: Option<Violation>,
    /// oracle-id prefixes this check reports; anything else is counted as `suppressed.<oracle>`
    pub accept: &'static [&'static str],
}

impl<'a> Ctx<'a> {
    pub fn new(counters: &'a mut Counters, accept: &'static [&'static str]) -> Self {
        Ctx { counters, trace: H64::new(), sig: H64::new(), nontrivial: false, events: 0, violation: None, accept }
    }
    pub fn fail(&mut self, v: Violation) {
        if !self.accept.iter().any(|p| v.oracle.starts_with(p)) {
            self.counters.inc(&format!("suppressed.{}", v.oracle));
            return;
        }
        if self.violation.is_none() {
            self.violation = Some(v);
        }
    }
    pub fn failed(&self) -> bool {
        self.violation.is_some()
    }
    pub fn probe(&mut self, name: &str) {
        self.counters.inc(&format!("probe.{name}"));
    }
    pub fn fault(&mut self, name: &str) {
        self.counters.inc(&format!("fault.{name}"));
    }
    pub fn finish(self) -> RunOut {
        RunOut {
            violation: self.violation,
            sig: if self.nontrivial { self.sig.finish() | 1 } else { 0 },
            trace: self.trace.finish(),
            events: self.events,
        }
    }
}

/// A property check = plan generator + plan executor + plan shrinker.
pub trait Check: Sync {
    fn id(&self) -> &'static str;
    fn level(&self) -> &'static str;
    fn runs(&self, tier: Tier) -> u64;
    /// Generate the plan of run `run` (stage 1; the only place randomness is drawn).
    fn gen(&self, seed: u64, run: u64, tier: Tier) -> Value;
    /// Execute a plan (stage 2; pure function of the plan and the code under test).
    fn exec(&self, plan: &Value, counters: &mut Counters) -> Result<RunOut, String>;
    /// Hot path: generate and execute without going through JSON. Default goes through JSON.
    fn gen_exec(&self, seed: u64, run: u64, tier: Tier, counters: &mut Counters) -> Result<(RunOut, Option<Value>), String> {
        let plan = self.gen(seed, run, tier);
        let out = self.exec(&plan, counters)?;
        let keep = out.violation.is_some();
        Ok((out, if keep { Some(plan) } else { None }))
    }
    /// Candidate simplifications of a plan, simplest first.
    fn shrink(&self, plan: &Value) -> Vec<Value>;
    /// Deterministic, non-seeded extra runs (fixed dictionaries, regression plans).
    fn fixed_plans(&self, _tier: Tier) -> Vec<Value> {
        Vec::new()
    }
    /// wall-clock limit for ONE run before it is treated as a hang (generous: normal runs take
    /// milliseconds; only the Miri-scheduled real-rayon runs of C14 take tens of seconds)
    fn wall_limit_s(&self) -> u64 {
        600
    }
    fn rule(&self) -> String;
    fn assumptions(&self) -> Vec<String>;
    fn components(&self) -> Value;
    fn inapplicable_faults(&self) -> Vec<String> {
        vec![
            "clock skew / timer faults: the library reads no clock".into(),
            "disk / fsync / torn-write faults: the library performs no I/O; durability is modelled by the harness store of encoded bytes".into(),
            "reader faults (EINTR, short read): decoders take Cursor<&[u8]> only".into(),
            "allocation failure: aborts the process (contained by worker processes), not injected".into(),
        ]
    }
}

// ---- panic containment --------------------------------------------------------------------

thread_local! {
    static CALL_LABEL: RefCell<String> = RefCell::new(String::new());
    static LAST_PANIC: RefCell<Option<(String, String)>> = RefCell::new(None);
}

pub fn install_panic_hook() {
    std::panic::set_hook(Box::new(|info| {
        let msg = if let Some(s) = info.payload().downcast_ref::<&str>() {
            s.to_string()
        } else if let Some(s) = info.payload().downcast_ref::<String>() {
            s.clone()
        } else {
            "<non-string panic>".to_string()
        };
        let loc = info.location().map(|l| format!("{}:{}", l.file(), l.line())).unwrap_or_default();
        LAST_PANIC.with(|p| *p.borrow_mut() = Some((msg, loc)));
    }));
}

pub fn set_label(s: &str) {
    CALL_LABEL.with(|l| {
        let mut l = l.borrow_mut();
        l.clear();
        l.push_str(s);
    });
}

pub fn normalise_digits(s: &str) -> String {
    let mut out = String::with_capacity(s.len());
    let mut in_num = false;
    for c in s.chars() {
        if c.is_ascii_digit() {
            if !in_num {
                out.push('#');
            }
            in_num = true;
        } else {
            in_num = false;
            out.push(c);
        }
    }
    out
}

/// Run a library call; a panic becomes `Err(Violation{oracle:"panic"})`.
pub fn guard<T>(label: &str, f: impl FnOnce() -> T) -> Result<T, Violation> {
    set_label(label);
    let r = std::panic::catch_unwind(std::panic::AssertUnwindSafe(f));
    match r {
        Ok(v) => Ok(v),
        Err(_) => {
            let (msg, loc) = LAST_PANIC.with(|p| p.borrow_mut().take()).unwrap_or_default();
            let file = loc.rsplit('/').next().unwrap_or("").split(':').next().unwrap_or("").to_string();
            Err(Violation::new(
                "panic",
                format!("{label}|{file}|{}", normalise_digits(&msg)),
                format!("panic inside library call `{label}` at {loc}: {msg}"),
            ))
        }
    }
}

/// Whole-run guard for harness code: a panic outside a labelled library call is a harness error.
pub fn guard_run<T>(f: impl FnOnce() -> T) -> Result<T, String> {
    set_label("<harness>");
    let r = std::panic::catch_unwind(std::panic::AssertUnwindSafe(f));
    match r {
        Ok(v) => Ok(v),
        Err(_) => {
            let (msg, loc) = LAST_PANIC.with(|p| p.borrow_mut().take()).unwrap_or_default();
            let label = CALL_LABEL.with(|l| l.borrow().clone());
            Err(format!("harness panic (last label `{label}`) at {loc}: {msg}"))
        }
    }
}

// ---- known findings -----------------------------------------------------------------------

#[derive(Clone, Debug, Serialize, Deserialize, Default)]
pub struct KnownFindings {
    #[serde(default)]
    pub open: Vec<KnownFinding>,
    #[serde(default)]
    pub fixed: Vec<String>,
}

#[derive(Clone, Debug, Serialize, Deserialize)]
pub struct KnownFinding {
    pub property: String,
    pub oracle: String,
    pub signature: String,
    pub what: String,
    /// replay plan (path relative to /verif) that demonstrates it
    pub replay: String,
}

impl KnownFindings {
    pub fn load(path: &str) -> Result<Self, String> {
        match std::fs::read_to_string(path) {
            Ok(s) => serde_json::from_str(&s).map_err(|e| format!("{path}: {e}")),
            Err(_) => Ok(Self::default()),
        }
    }
    pub fn matches(&self, prop: &str, v: &Violation) -> Option<&KnownFinding> {
        self.open.iter().find(|k| k.property == prop && k.oracle == v.oracle && k.signature == v.signature)
    }
}

pub fn distinct_count(sigs: &BTreeSet<u64>) -> u64 {
    sigs.len() as u64
}
