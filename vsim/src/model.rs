//! Reference models on plain integers: measurement generators, honest encodings, plain
//! aggregates, validity predicates. Nothing here calls the library.

use crate::inst::{ApSpec, Inst};
use crate::rng::Rng;
use crate::util::N;

pub const P32: u128 = 4293918721;
pub const P64: u128 = 18446744069414584321;
pub const P128: u128 = 340282366920938462946865773367900766209;

pub fn modulus(inst: &Inst) -> u128 {
    match inst.class.as_str() {
        "count" | "sum" | "sumvec64" => P64,
        "prio2" => P32,
        _ => P128,
    }
}

pub fn bits_of(max: u128) -> usize {
    (128 - max.leading_zeros()) as usize
}

/// modified bit-vector encoding used by Sum / SumVec / L1BoundSum / multihot weight
pub fn enc_range_checked(v: u128, max: u128) -> Vec<u128> {
    let bits = bits_of(max);
    let threshold = (1u128 << (bits - 1)) - 1;
    let last_weight = max - threshold;
    let (rest, high) = if v > threshold { (v - last_weight, 1) } else { (v, 0) };
    let mut out: Vec<u128> = (0..bits - 1).map(|i| (rest >> i) & 1).collect();
    out.push(high);
    out
}

pub fn add_mod(a: u128, b: u128, p: u128) -> u128 {
    let (s, c) = a.overflowing_add(b);
    if c || s >= p {
        s.wrapping_sub(p)
    } else {
        s
    }
}

pub fn sub_mod(a: u128, b: u128, p: u128) -> u128 {
    if a >= b {
        a - b
    } else {
        p - (b - a)
    }
}

/// length of the sharding randomness the library wants for this instance
pub fn rand_len(inst: &Inst) -> usize {
    let n = inst.n as usize;
    match inst.class.as_str() {
        "poplar1" => 32 + 3 * 32,
        "prio2" => 64,
        _ => {
            if inst.has_joint_rand() {
                2 * n * inst.seed_size()
            } else {
                n * inst.seed_size()
            }
        }
    }
}

/// number of field elements of the encoded measurement
pub fn input_len(inst: &Inst) -> usize {
    let len = inst.len as usize;
    match inst.class.as_str() {
        "count" => 1,
        "sum" | "avg" => bits_of(inst.max.0),
        "sumvec" | "sumvec64" => bits_of(inst.max.0) * len,
        "hist" => len,
        "multihot" => len + bits_of(inst.weight as u128),
        "l1" => bits_of(inst.max.0) * (len + 1),
        "prio2" => len,
        "cube" => 2,
        _ => 0,
    }
}

/// plain aggregate of the measurements, in the presentation the adapters use for results
pub fn reference(inst: &Inst, ms: &[Vec<N>], ap: &ApSpec) -> Vec<u128> {
    let p = modulus(inst);
    match inst.class.as_str() {
        "count" | "sum" => {
            let mut s = 0u128;
            for m in ms {
                s = add_mod(s, m[0].0 % p, p);
            }
            vec![s]
        }
        "avg" => {
            let mut s = 0u128;
            for m in ms {
                s = add_mod(s, m[0].0 % p, p);
            }
            // same u64 -> f64 division as documented for the result type
            let avg = (s as u64 as f64) / (ms.len() as f64);
            vec![avg.to_bits() as u128]
        }
        "hist" => {
            let mut v = vec![0u128; inst.len as usize];
            for m in ms {
                v[m[0].0 as usize] += 1;
            }
            v
        }
        "poplar1" => {
            // count, per candidate prefix, the inputs that start with it
            ap.iter()
                .map(|pre| {
                    let pb: Vec<u128> = pre.bytes().map(|c| (c == b'1') as u128).collect();
                    ms.iter().filter(|m| m.len() >= pb.len() && m.iter().zip(pb.iter()).all(|(a, b)| a.0 == *b)).count() as u128
                })
                .collect()
        }
        _ => {
            // sumvec, sumvec64, multihot, l1, prio2: element-wise sum
            let len = inst.len as usize;
            let mut v = vec![0u128; len];
            for m in ms {
                for (a, b) in v.iter_mut().zip(m.iter()) {
                    *a = add_mod(*a, b.0 % p, p);
                }
            }
            v
        }
    }
}

/// robust oracle: is this (sum of the output shares of ONE report, as integers) the truncation of
/// a valid encoded measurement?
pub fn output_valid(inst: &Inst, sum: &[u128], _ap: &ApSpec) -> bool {
    let max = inst.max.0;
    let len = inst.len as usize;
    match inst.class.as_str() {
        "count" => sum.len() == 1 && sum[0] <= 1,
        "sum" | "avg" => sum.len() == 1 && sum[0] <= max,
        "sumvec" | "sumvec64" => sum.len() == len && sum.iter().all(|x| *x <= max),
        "hist" => sum.len() == len && sum.iter().all(|x| *x <= 1) && sum.iter().sum::<u128>() == 1,
        "multihot" => sum.len() == len && sum.iter().all(|x| *x <= 1) && sum.iter().sum::<u128>() <= inst.weight as u128,
        "l1" => sum.len() == len && sum.iter().all(|x| *x <= max) && sum.iter().try_fold(0u128, |a, b| a.checked_add(*b)).map(|s| s <= max).unwrap_or(false),
        "prio2" => sum.len() == len && sum.iter().all(|x| *x <= 1),
        "cube" => sum.len() == 2 && (2..5).contains(&sum[0]) && sum[1] == sum[0] * sum[0] * sum[0],
        "poplar1" => sum.iter().all(|x| *x <= 1) && sum.iter().sum::<u128>() <= 1,
        _ => false,
    }
}

fn edge(rng: &mut Rng, max: u128) -> u128 {
    match rng.below(6) {
        0 => 0,
        1 => max,
        2 => max.saturating_sub(1),
        3 => 1.min(max),
        _ => {
            if max == u128::MAX {
                rng.u128()
            } else {
                rng.u128() % (max + 1)
            }
        }
    }
}

/// draw a valid measurement
pub fn gen_meas(inst: &Inst, rng: &mut Rng) -> Vec<N> {
    let max = inst.max.0;
    let len = inst.len as usize;
    match inst.class.as_str() {
        "count" => vec![N(rng.below(2) as u128)],
        "cube" => {
            let x = 2 + rng.below(3) as u128;
            vec![N(x), N(x * x * x)]
        }
        "sum" | "avg" => vec![N(edge(rng, max))],
        "sumvec" | "sumvec64" => (0..len).map(|_| N(edge(rng, max))).collect(),
        "hist" => {
            let b = match rng.below(4) {
                0 => 0,
                1 => len - 1,
                _ => rng.usize_below(len),
            };
            vec![N(b as u128)]
        }
        "multihot" => {
            let w = rng.usize_below(inst.weight as usize + 1).min(len);
            let w = if rng.chance(1, 4) { (inst.weight as usize).min(len) } else { w };
            let mut idx: Vec<usize> = (0..len).collect();
            rng.shuffle(&mut idx);
            let mut v = vec![N(0); len];
            for i in idx.into_iter().take(w) {
                v[i] = N(1);
            }
            v
        }
        "l1" => {
            // elements in [0,max] with L1 norm <= max
            let mut budget = match rng.below(3) {
                0 => max,
                1 => 0,
                _ => rng.u128() % (max + 1),
            };
            let mut v = vec![N(0); len];
            let mut idx: Vec<usize> = (0..len).collect();
            rng.shuffle(&mut idx);
            for (k, i) in idx.iter().enumerate() {
                if budget == 0 {
                    break;
                }
                let take = if k + 1 == len || rng.chance(1, 3) { budget } else { rng.u128() % (budget + 1) };
                v[*i] = N(take);
                budget -= take;
            }
            v
        }
        "prio2" => (0..len).map(|_| N(rng.below(2) as u128)).collect(),
        "poplar1" => (0..len).map(|_| N(rng.below(2) as u128)).collect(),
        _ => vec![],
    }
}

/// the honest encoding of a measurement as raw field integers
pub fn encode_raw(inst: &Inst, meas: &[N]) -> Option<Vec<N>> {
    let max = inst.max.0;
    let len = inst.len as usize;
    Some(match inst.class.as_str() {
        "count" => vec![N(meas[0].0)],
        "sum" | "avg" => enc_range_checked(meas[0].0, max).into_iter().map(N).collect(),
        "sumvec" | "sumvec64" => meas.iter().flat_map(|m| enc_range_checked(m.0, max)).map(N).collect(),
        "hist" => {
            let mut v = vec![N(0); len];
            v[meas[0].0 as usize] = N(1);
            v
        }
        "multihot" => {
            let w: u128 = meas.iter().map(|x| x.0).sum();
            let mut v: Vec<N> = meas.to_vec();
            v.extend(enc_range_checked(w, inst.weight as u128).into_iter().map(N));
            v
        }
        "l1" => {
            let w: u128 = meas.iter().map(|x| x.0).sum();
            let mut v: Vec<N> = meas.iter().flat_map(|m| enc_range_checked(m.0, max)).map(N).collect();
            v.extend(enc_range_checked(w, max).into_iter().map(N));
            v
        }
        "prio2" => meas.to_vec(),
        "cube" => meas.to_vec(),
        _ => return None,
    })
}

fn mulmod3(x: u128, p: u128) -> u128 {
    // x^3 mod p for small x or x = p - 1
    if x == p - 1 {
        p - 1
    } else {
        (x * x * x) % p
    }
}

/// Draw a raw encoded vector that is NOT a valid encoding (Byzantine client). Returns the raw
/// vector and a label of the invalidity class.
pub fn gen_invalid_raw(inst: &Inst, rng: &mut Rng) -> (Vec<N>, &'static str) {
    let m = gen_meas(inst, rng);
    let mut raw = encode_raw(inst, &m).unwrap();
    let p = modulus(inst);
    let bad = |rng: &mut Rng| -> u128 {
        match rng.below(4) {
            0 => 2,
            1 => p - 1,
            2 => p - 2,
            _ => 2 + rng.u128() % (p - 3),
        }
    };
    let ilen = raw.len();
    let cls = inst.class.as_str();
    let len = inst.len as usize;
    // class-specific near-misses that satisfy the affine checks only
    let special = rng.below(3) == 0;
    match cls {
        "cube" => {
            // near misses: the right x with y off by a little; x just outside the range with y = x^3; anything
            let x = 2 + rng.below(3) as u128;
            return match rng.below(4) {
                0 | 1 => {
                    let d = *rng.pick(&[1u128, 2, p - 1]);
                    (vec![N(x), N((x * x * x + d) % p)], "cube_y_off")
                }
                2 => {
                    let x = *rng.pick(&[0u128, 1, 5, 6, p - 1]);
                    (vec![N(x), N(mulmod3(x, p))], "cube_x_out_of_range")
                }
                _ => (vec![N(bad(rng)), N(bad(rng))], "cube_random"),
            };
        }
        "hist" if special => match rng.below(3) {
            0 => {
                raw.iter_mut().for_each(|x| *x = N(0));
                return (raw, "hist_zero_hot");
            }
            1 if len >= 2 => {
                raw.iter_mut().for_each(|x| *x = N(0));
                let a = rng.usize_below(len);
                let mut b = rng.usize_below(len);
                if b == a {
                    b = (a + 1) % len;
                }
                raw[a] = N(1);
                raw[b] = N(1);
                return (raw, "hist_two_hot");
            }
            _ if len >= 2 => {
                // (2, -1, 0...) : sums to one, range check must fail
                raw.iter_mut().for_each(|x| *x = N(0));
                let a = rng.usize_below(len);
                let b = (a + 1 + rng.usize_below(len - 1)) % len;
                raw[a] = N(2);
                raw[b] = N(p - 1);
                return (raw, "hist_two_minus_one");
            }
            _ => {}
        },
        "multihot" if special && rng.chance(1, 3) && inst.weight >= 2 => {
            // one bucket holds 2, the claimed weight is the honest encoding of 2
            for x in raw.iter_mut() {
                *x = N(0);
            }
            let a = rng.usize_below(len);
            raw[a] = N(2);
            for (x, e) in raw.iter_mut().skip(len).zip(enc_range_checked(2, inst.weight as u128)) {
                *x = N(e);
            }
            return (raw, "multihot_bucket_two_consistent");
        }
        "multihot" if special => {
            let wmax = inst.weight as usize;
            if wmax < len {
                // weight above the bound; claimed weight all-ones (max) or left as it was
                let w = wmax + 1 + rng.usize_below(len - wmax);
                let mut idx: Vec<usize> = (0..len).collect();
                rng.shuffle(&mut idx);
                for x in raw.iter_mut().take(len) {
                    *x = N(0);
                }
                for i in idx.into_iter().take(w) {
                    raw[i] = N(1);
                }
                if rng.chance(1, 2) {
                    for x in raw.iter_mut().skip(len) {
                        *x = N(1);
                    }
                }
                return (raw, "multihot_overweight");
            } else {
                let have: u128 = raw[..len].iter().map(|x| x.0).sum();
                let claim = if have == 0 { 1 } else { have - 1 };
                let enc = enc_range_checked(claim, inst.weight as u128);
                for (x, e) in raw.iter_mut().skip(len).zip(enc) {
                    *x = N(e);
                }
                return (raw, "multihot_wrong_claim");
            }
        }
        "l1" if special && rng.chance(1, 2) => {
            // exactly ONE non-bit digit while the norm equation still holds, so that only the range
            // check of that digit's chunk can reject the report
            let max = inst.max.0;
            let bits = bits_of(max);
            let threshold = (1u128 << (bits - 1)) - 1;
            let w_top = max - threshold;
            if len >= 2 && rng.chance(1, 2) && max.checked_add(w_top).map(|t| t < p).unwrap_or(false) {
                // the TOP digit of the claimed norm is 2, all lower digits 1: claim = 2*w_top + threshold
                // = max + w_top; elements: one holds max, another w_top
                for x in raw.iter_mut() {
                    *x = N(0);
                }
                let a = rng.usize_below(len);
                let b = (a + 1 + rng.usize_below(len - 1)) % len;
                for (k, e) in enc_range_checked(max, max).into_iter().enumerate() {
                    raw[a * bits + k] = N(e);
                }
                for (k, e) in enc_range_checked(w_top, max).into_iter().enumerate() {
                    raw[b * bits + k] = N(e);
                }
                for k in 0..bits - 1 {
                    raw[len * bits + k] = N(1);
                }
                raw[len * bits + bits - 1] = N(2);
                return (raw, "l1_claim_top_digit_two");
            }
            if bits >= 3 {
                // one element digit is 2, the claim is the honest encoding of the resulting norm
                for x in raw.iter_mut() {
                    *x = N(0);
                }
                let e = rng.usize_below(len);
                let j = rng.usize_below(bits - 2);
                let s = 2u128 << j; // 2 * 2^j <= 2^(bits-2) <= threshold < max
                raw[e * bits + j] = N(2);
                for (k, d) in enc_range_checked(s, max).into_iter().enumerate() {
                    raw[len * bits + k] = N(d);
                }
                return (raw, "l1_element_digit_two_consistent");
            }
        }
        "l1" if special => {
            let max = inst.max.0;
            let bits = bits_of(max);
            let have: u128 = m.iter().map(|x| x.0).sum();
            let claim = if have == 0 { 1.min(max) } else { have - 1 };
            if claim != have {
                let enc = enc_range_checked(claim, max);
                for (x, e) in raw.iter_mut().skip(len * bits).zip(enc) {
                    *x = N(e);
                }
                return (raw, "l1_wrong_claim");
            }
        }
        _ => {}
    }
    let i = rng.usize_below(ilen);
    raw[i] = N(bad(rng));
    (raw, "non_bit")
}
