//! Poplar1 instance class: adapter, layouts, generators of inputs and aggregation parameters.

use crate::core::guard;
use crate::inst::{Adapter, ApSpec, Inst, Kind, Region, ShardErr, SimVdaf};
use crate::world_a::{ByzEdit, ByzLabel, Mutation, Site};
use prio::codec::Decode;
use prio::idpf::{Idpf, IdpfOutputShare, IdpfPublicShare, NoCache};
use prio::vdaf::poplar1::Poplar1IdpfValue;
use prio::vdaf::xof::Seed;
use crate::model::P64;
use crate::rng::Rng;
use crate::util::N;
use prio::codec::{CodecError, Encode, ParameterizedDecode};
use prio::field::{Field255, Field64, FieldElement};
use prio::idpf::IdpfInput;
use prio::topology::ping_pong::PingPongContinuation;
use prio::vdaf::poplar1::{Poplar1, Poplar1AggregationParam, Poplar1FieldVec, Poplar1VerifierState};
use prio::vdaf::test_utils::TestVectorClient;
use prio::vdaf::xof::XofTurboShake128;

pub type Pop = Poplar1<XofTurboShake128, 32>;

impl SimVdaf<32> for Pop {
    fn enc_state(s: &Poplar1VerifierState) -> Result<Vec<u8>, CodecError> {
        s.get_encoded()
    }
    fn state_len_hint(s: &Poplar1VerifierState) -> Option<usize> {
        s.encoded_len()
    }
    fn dec_state(&self, agg_id: usize, b: &[u8]) -> Result<Poplar1VerifierState, CodecError> {
        Poplar1VerifierState::get_decoded_with_param(&(self, agg_id), b)
    }
    fn enc_cont(c: &PingPongContinuation<32, 16, Self>) -> Result<Vec<u8>, CodecError> {
        c.get_encoded()
    }
    fn cont_len_hint(c: &PingPongContinuation<32, 16, Self>) -> Option<usize> {
        c.encoded_len()
    }
    fn dec_cont(&self, agg_id: usize, b: &[u8]) -> Result<PingPongContinuation<32, 16, Self>, CodecError> {
        PingPongContinuation::get_decoded_with_param(&(self, agg_id), b)
    }
}

thread_local! {
    /// Storage-offset tape: when non-empty, every IdpfInput the harness builds is handed over as a
    /// bit vector that starts tape[k] bits into its first storage word (a legal
    /// `IdpfInput::from(BitVec)`, logically equal to the aligned input).
    static OFFSETS: std::cell::RefCell<(Vec<u8>, usize, u64)> = std::cell::RefCell::new((Vec::new(), 0, 0));
}

pub fn set_offsets(tape: Vec<u8>) {
    OFFSETS.with(|o| *o.borrow_mut() = (tape, 0, 0));
}

/// Clears the tape; returns how many inputs were built with a non-zero storage offset.
pub fn clear_offsets() -> u64 {
    OFFSETS.with(|o| {
        let n = o.borrow().2;
        *o.borrow_mut() = (Vec::new(), 0, 0);
        n
    })
}

thread_local! {
    /// Explicit storage directives: bit string -> (offset, junk bits stored before the live bits).
    static STORAGE: std::cell::RefCell<std::collections::HashMap<String, (u8, String)>> = std::cell::RefCell::new(std::collections::HashMap::new());
}

pub fn set_storage(v: &[(String, u8, String)]) {
    STORAGE.with(|m| {
        let mut m = m.borrow_mut();
        m.clear();
        for (k, o, j) in v {
            m.insert(k.clone(), (*o, j.clone()));
        }
    });
}

fn bools_to_input(b: &[bool]) -> IdpfInput {
    let key: String = b.iter().map(|x| if *x { '1' } else { '0' }).collect();
    if let Some((o, junk)) = STORAGE.with(|m| m.borrow().get(&key).cloned()) {
        use bitvec::prelude::*;
        let mut bv: BitVec<usize, Lsb0> = BitVec::new();
        for c in junk.bytes().take(o as usize) {
            bv.push(c == b'1');
        }
        while bv.len() < o as usize {
            bv.push(false);
        }
        for x in b {
            bv.push(*x);
        }
        OFFSETS.with(|t| t.borrow_mut().2 += 1);
        return IdpfInput::from(bv[o as usize..].to_bitvec());
    }
    let (off, residue) = OFFSETS.with(|o| {
        let mut o = o.borrow_mut();
        if o.0.is_empty() {
            return (0usize, 0usize);
        }
        let raw = o.0[o.1 % o.0.len()] as usize;
        let k = o.1;
        o.1 += 1;
        if raw >= 128 {
            // residue mode: the input is a longer bit vector cut down with `truncate`, which leaves the cut-off
            // bits in the last storage word (dead bits; a legal `IdpfInput::from(BitVec)`, equal to the clean input)
            o.2 += 1;
            return (0, 1 + (raw + k) % 61);
        }
        let v = raw % 64;
        if v != 0 {
            o.2 += 1;
        }
        (v, 0)
    });
    if residue > 0 {
        use bitvec::prelude::*;
        let mut bv: BitVec<usize, Lsb0> = BitVec::new();
        for x in b {
            bv.push(*x);
        }
        for i in 0..residue {
            bv.push((i + residue) % 3 != 0);
        }
        bv.truncate(b.len());
        return IdpfInput::from(bv);
    }
    if off == 0 {
        return IdpfInput::from_bools(b);
    }
    use bitvec::prelude::*;
    let mut bv: BitVec<usize, Lsb0> = BitVec::new();
    for i in 0..off {
        bv.push(i % 3 != 1);
    }
    for x in b {
        bv.push(*x);
    }
    IdpfInput::from(bv[off..].to_bitvec())
}

pub fn bits_to_input(bits: &[N]) -> IdpfInput {
    let b: Vec<bool> = bits.iter().map(|x| x.0 != 0).collect();
    bools_to_input(&b)
}

pub fn str_to_input(s: &str) -> IdpfInput {
    let b: Vec<bool> = s.bytes().map(|c| c == b'1').collect();
    bools_to_input(&b)
}

pub struct PopAd {
    pub inst: Inst,
}

impl PopAd {
    fn bits(&self) -> usize {
        self.inst.len as usize
    }
    fn is_leaf(&self, ap: &ApSpec) -> bool {
        ap.first().map(|p| p.len() == self.bits()).unwrap_or(false)
    }
}

impl Adapter<Pop> for PopAd {
    fn inst(&self) -> &Inst {
        &self.inst
    }
    fn rand_len(&self) -> usize {
        32 + 3 * 32
    }
    fn shard(&self, vdaf: &Pop, ctx: &[u8], meas: &[N], nonce: &[u8; 16], rand: &[u8], _evil: bool) -> Result<(Vec<u8>, Vec<Vec<u8>>), ShardErr> {
        if rand.len() != self.rand_len() {
            return Err(ShardErr::Refused("harness: wrong randomness length".into()));
        }
        let input = bits_to_input(meas);
        let r = guard("Poplar1::shard_with_random", || vdaf.shard_with_random(ctx, &input, nonce, rand)).map_err(ShardErr::Panic)?;
        match r {
            Ok((ps, shares)) => {
                let pb = guard("Poplar1PublicShare::encode", || ps.get_encoded()).map_err(ShardErr::Panic)?.map_err(|e| ShardErr::Refused(e.to_string()))?;
                let mut sb = Vec::new();
                for s in &shares {
                    sb.push(guard("Poplar1InputShare::encode", || s.get_encoded()).map_err(ShardErr::Panic)?.map_err(|e| ShardErr::Refused(e.to_string()))?);
                }
                Ok((pb, sb))
            }
            Err(e) => Err(ShardErr::Refused(e.to_string())),
        }
    }
    fn agg_param(&self, spec: &ApSpec) -> Result<Poplar1AggregationParam, String> {
        let prefixes: Vec<IdpfInput> = spec.iter().map(|s| str_to_input(s)).collect();
        match guard("Poplar1AggregationParam::try_from_prefixes", || Poplar1AggregationParam::try_from_prefixes(prefixes)) {
            Ok(Ok(p)) => Ok(p),
            Ok(Err(e)) => Err(format!("try_from_prefixes refused an admissible parameter: {e}")),
            Err(v) => Err(v.detail),
        }
    }
    fn result_vec(&self, r: &Vec<u64>) -> Vec<u128> {
        r.iter().map(|x| *x as u128).collect()
    }
    fn out_field(&self, ap: &ApSpec) -> (usize, u128) {
        if self.is_leaf(ap) {
            (32, 0)
        } else {
            (8, P64)
        }
    }
    fn out_len(&self, ap: &ApSpec) -> usize {
        ap.len()
    }
    fn layout(&self, kind: Kind, _agg: usize, round: u8, ap: &ApSpec) -> Vec<Region> {
        let bits = self.bits();
        let leaf = self.is_leaf(ap);
        let f = if leaf { 32 } else { 8 };
        let mut v = Vec::new();
        let mut off = 0;
        let mut push = |name: &'static str, len: usize, elem: usize, v: &mut Vec<Region>| {
            if len > 0 {
                v.push(Region { name, off, len, elem });
            }
            off += len;
        };
        match kind {
            Kind::Public => {
                push("control_bits", (2 * bits).div_ceil(8), 1, &mut v);
                push("seed_correction_words", 16 * bits, 1, &mut v);
                push("inner_payloads", 16 * (bits - 1), 8, &mut v);
                push("leaf_payload", 64, 32, &mut v);
            }
            Kind::Input => {
                push("idpf_key", 16, 1, &mut v);
                push("corr_seed", 32, 1, &mut v);
                push("corr_inner", 16 * (bits - 1), 8, &mut v);
                push("corr_leaf", 64, 32, &mut v);
            }
            Kind::VShare => {
                push("sketch_share", if round == 0 { 3 * f } else { f }, f, &mut v);
            }
            Kind::VMsg => {
                if round == 0 {
                    push("sketch", 3 * f, f, &mut v);
                }
            }
            Kind::State => {
                push("tags", 2, 1, &mut v);
                if round == 0 {
                    push("corr_ab", 2 * f, f, &mut v);
                }
                push("count", 4, 1, &mut v);
                push("output_share", ap.len() * f, f, &mut v);
            }
            Kind::Out | Kind::AggShare => {
                push("elements", ap.len() * f, f, &mut v);
            }
        }
        v
    }
    fn byz_rewrite(&self, _vdaf: &Pop, ctx: &[u8], nonce: &[u8; 16], meas: &[N], public: &mut Vec<u8>, inputs: &mut Vec<Vec<u8>>, edits: &[ByzEdit], aps: &[ApSpec]) -> Vec<ByzLabel> {
        byz_rewrite_poplar(self.bits(), ctx, nonce, meas, public, inputs, edits, aps)
    }
    fn strict_applies(&self, site: &Site, ap: &ApSpec, meas: &[N]) -> bool {
        let bits = self.bits();
        let plen = ap.first().map(|p| p.len()).unwrap_or(1);
        let level = plen - 1;
        let leaf = plen == bits;
        if site.len_change {
            return true;
        }
        // a two-byte alteration (same mask in two bytes, byte swap) that touches TWO sketch elements can cancel: the
        // helper only uses z1 + z2 (z1 + d, z2 - d is the documented exception of Appendix E), so the strict oracle
        // is kept for alterations confined to one field element
        let fs = if leaf { 32 } else { 8 };
        let one_elem = site.rel.1 > site.rel.0 && site.rel.0 / fs == (site.rel.1 - 1) / fs;
        match (site.kind, site.region) {
            (Kind::VShare, _) => one_elem,
            // the leader's round-two computation uses only the first sketch element (A*z0 + B); the
            // helper uses all three
            (Kind::VMsg, _) => one_elem && (site.agg == 1 || site.rel.1 <= fs),
            (Kind::Input, "idpf_key") | (Kind::Input, "corr_seed") => true,
            (Kind::Input, "corr_inner") => !leaf && site.rel.0 >= 16 * level && site.rel.1 <= 16 * level + 16,
            (Kind::Input, "corr_leaf") => leaf,
            (Kind::Public, "inner_payloads") | (Kind::Public, "leaf_payload") => {
                // payload correction word of the queried level, and the on-path prefix is a candidate
                let on_path = bits_to_string(&meas[..plen.min(meas.len())]);
                let queried = if site.region == "leaf_payload" { leaf } else { !leaf && site.rel.0 >= 16 * level && site.rel.1 <= 16 * level + 16 };
                // per link the payload word is applied by only ONE of the two parties on the path (the one
                // whose control bit is set), so only an at-source alteration is guaranteed to matter
                site.at_source && queried && ap.iter().any(|p| *p == on_path)
            }
            _ => false,
        }
    }
    fn same_type_instance(&self, other: &Inst) -> Option<Pop> {
        if other.class != "poplar1" {
            return None;
        }
        Some(Poplar1::new_turboshake128(other.len as usize))
    }
    fn wrong_len_output(&self, bytes: &[u8], ap: &ApSpec, other_level: bool) -> Option<Poplar1FieldVec> {
        poplar_field_vec(self.is_leaf(ap) != other_level, bytes)
    }
}

/// Wrong-length / wrong-level shares for the refusal checks of C13.
#[allow(deprecated)]
pub fn poplar_field_vec(leaf: bool, bytes: &[u8]) -> Option<Poplar1FieldVec> {
    if leaf {
        Field255::byte_slice_into_vec(bytes).ok().map(Poplar1FieldVec::Leaf)
    } else {
        Field64::byte_slice_into_vec(bytes).ok().map(Poplar1FieldVec::Inner)
    }
}

pub fn gen_poplar_inst(rng: &mut Rng, deep: bool) -> Inst {
    let bits = if deep {
        *rng.pick(&[300u32, 1000, 4096, 21_850, 30_000, 65_535, 65_536])
    } else {
        *rng.pick(&[1u32, 2, 2, 3, 3, 4, 5, 5, 8, 8, 13, 16, 16, 32, 64, 64, 128, 256])
    };
    Inst { class: "poplar1".into(), n: 2, proofs: 1, max: N(1), len: bits, chunk: 1, weight: 1, mt: false, named: true, xof: String::new() }
}

pub fn bits_to_string(bits: &[N]) -> String {
    bits.iter().map(|b| if b.0 != 0 { '1' } else { '0' }).collect()
}

/// Candidate prefix set at `level` (prefix length level+1): some on the inputs' paths, some off.
pub fn gen_prefixes(rng: &mut Rng, inputs: &[Vec<N>], plen: usize, max: usize, parents: Option<&ApSpec>) -> ApSpec {
    let mut set = std::collections::BTreeSet::new();
    let want = 1 + rng.usize_below(max);
    let mut tries = 0;
    while set.len() < want && tries < 8 * want + 8 {
        tries += 1;
        let mut s: String = match parents {
            Some(ps) if !ps.is_empty() => ps[rng.usize_below(ps.len())].clone(),
            _ => String::new(),
        };
        if s.len() > plen {
            s.truncate(plen);
        }
        if parents.is_none() && !inputs.is_empty() && rng.chance(2, 3) {
            // on an input's path
            let m = &inputs[rng.usize_below(inputs.len())];
            s = bits_to_string(&m[..plen.min(m.len())]);
            if rng.chance(1, 4) && !s.is_empty() {
                // sibling / divergence at a random depth
                let d = rng.usize_below(s.len());
                let mut b: Vec<u8> = s.into_bytes();
                b[d] = if b[d] == b'1' { b'0' } else { b'1' };
                s = String::from_utf8(b).unwrap();
            }
        } else {
            while s.len() < plen {
                // extend: follow an input when possible, else random
                let follow = inputs.iter().find(|m| bits_to_string(&m[..s.len().min(m.len())]) == s && m.len() > s.len());
                let bit = match follow {
                    Some(m) if rng.chance(3, 4) => m[s.len()].0 != 0,
                    _ => rng.chance(1, 2),
                };
                s.push(if bit { '1' } else { '0' });
            }
        }
        if s.len() == plen {
            set.insert(s);
        }
    }
    if set.is_empty() {
        set.insert("0".repeat(plen));
    }
    set.into_iter().collect()
}

/// One aggregation parameter for the ping-pong world.
pub fn gen_ap_for(rng: &mut Rng, inst: &Inst, inputs: &[Vec<N>]) -> ApSpec {
    let bits = inst.len as usize;
    let plen = match rng.below(3) {
        0 => bits,
        1 => 1,
        _ => 1 + rng.usize_below(bits),
    };
    gen_prefixes(rng, inputs, plen, 6, None)
}

/// An admissible history of aggregation parameters: strictly increasing levels, each set
/// extending the previous one.
pub fn gen_ap_history(rng: &mut Rng, inst: &Inst, inputs: &[Vec<N>], max_hist: usize, max_set: usize) -> Vec<ApSpec> {
    let bits = inst.len as usize;
    let k = 1 + rng.usize_below(max_hist.min(bits));
    // choose k distinct prefix lengths, increasing; bias to include the leaf and level 0
    let mut lens = std::collections::BTreeSet::new();
    if rng.chance(1, 2) {
        lens.insert(bits);
    }
    if rng.chance(1, 3) {
        lens.insert(1);
    }
    let mut tries = 0;
    while lens.len() < k && tries < 50 {
        lens.insert(1 + rng.usize_below(bits));
        tries += 1;
    }
    let mut hist: Vec<ApSpec> = Vec::new();
    for l in lens {
        let ap = gen_prefixes(rng, inputs, l, max_set, hist.last());
        hist.push(ap);
    }
    hist
}


// ---- Byzantine client by wire rewrites -------------------------------------------------------

type PubShare = IdpfPublicShare<Poplar1IdpfValue<Field64>, Poplar1IdpfValue<Field255>>;

/// Reconstructed (data, authenticator) encodings at `prefix`, or None if something fails to
/// decode / evaluate.
fn eval_sum(bits: usize, ctx: &[u8], nonce: &[u8], public: &[u8], inputs: &[Vec<u8>], prefix: &str) -> Option<(Vec<u8>, Vec<u8>)> {
    let ps = PubShare::get_decoded_with_param(&bits, public).ok()?;
    let idpf: Idpf<Poplar1IdpfValue<Field64>, Poplar1IdpfValue<Field255>> = Idpf::new((), ());
    let pre = str_to_input(prefix);
    let mut outs = Vec::new();
    for j in 0..2 {
        let key = Seed::<16>::get_decoded(inputs[j].get(..16)?).ok()?;
        let r = std::panic::catch_unwind(std::panic::AssertUnwindSafe(|| idpf.eval(j, &ps, &key, &pre, ctx, nonce, &mut NoCache::new())));
        outs.push(r.ok()?.ok()?);
    }
    let b = outs.pop()?;
    let a = outs.pop()?;
    let sum = a.merge(b).ok()?;
    let enc = match sum {
        IdpfOutputShare::Inner(v) => v.get_encoded().ok()?,
        IdpfOutputShare::Leaf(v) => v.get_encoded().ok()?,
    };
    let h = enc.len() / 2;
    Some((enc[..h].to_vec(), enc[h..].to_vec()))
}

fn fe_add<F: FieldElement>(bytes: &mut [u8], delta: F, negate: bool) -> Option<()> {
    let cur = F::get_decoded(bytes).ok()?;
    let new = if negate { cur - delta } else { cur + delta };
    bytes.copy_from_slice(&new.get_encoded().ok()?);
    Some(())
}

fn small<F: FieldElement>(k: u64) -> F {
    let mut x = F::zero();
    for _ in 0..k {
        x = x + F::one();
    }
    x
}

fn reprogram<F: FieldElement>(bits: usize, ctx: &[u8], nonce: &[u8], public: &mut Vec<u8>, inputs: &[Vec<u8>], on_path: &str, off: usize, beta: &str, consistent: bool) -> Option<String> {
    let fs = F::ENCODED_SIZE;
    let (d0, a0) = eval_sum(bits, ctx, nonce, public, inputs, on_path)?;
    let cur_d = F::get_decoded(&d0).ok()?;
    let k = F::get_decoded(&a0).ok()?;
    let b: F = match beta {
        "0" => F::zero(),
        "1" => F::one(),
        "2" => small(2),
        "-1" => F::zero() - F::one(),
        _ => small::<F>(3) + k, // some value that is neither 0 nor 1 with overwhelming probability
    };
    let kappa = if consistent { k * b } else { k * b + F::one() };
    let (dd, da) = (b - cur_d, kappa - k);
    for negate in [false, true] {
        let saved = public.clone();
        fe_add::<F>(&mut public[off..off + fs], dd, negate)?;
        fe_add::<F>(&mut public[off + fs..off + 2 * fs], da, negate)?;
        if let Some((d1, a1)) = eval_sum(bits, ctx, nonce, public, inputs, on_path) {
            if F::get_decoded(&d1).ok()? == b && F::get_decoded(&a1).ok()? == kappa {
                return Some(format!("on-path value at prefix length {} re-programmed to beta={beta}, authenticator {}", on_path.len(), if consistent { "k*beta" } else { "k*beta+1" }));
            }
        }
        *public = saved;
    }
    None
}

/// Shift the (data, auth) value correction word at `off` so that the reconstructed values at
/// prefixes `p` and `d` sum to (1, k). Linear in the shift, so two evaluations give the slope.
#[allow(clippy::too_many_arguments)]
fn split_solve<F: FieldElement>(bits: usize, ctx: &[u8], nonce: &[u8], public: &mut Vec<u8>, inputs: &[Vec<u8>], p: &str, d: &str, off: usize, k: Option<&[u8]>) -> Option<()> {
    let fs = F::ENCODED_SIZE;
    let k = F::get_decoded(k?).ok()?;
    let sum_at = |public: &Vec<u8>| -> Option<(F, F)> {
        let (pd, pa) = eval_sum(bits, ctx, nonce, public, inputs, p)?;
        let (dd, da) = eval_sum(bits, ctx, nonce, public, inputs, d)?;
        Some((F::get_decoded(&pd).ok()? + F::get_decoded(&dd).ok()?, F::get_decoded(&pa).ok()? + F::get_decoded(&da).ok()?))
    };
    let orig = public.clone();
    let s0 = sum_at(public)?;
    fe_add::<F>(&mut public[off..off + fs], F::one(), false)?;
    fe_add::<F>(&mut public[off + fs..off + 2 * fs], F::one(), false)?;
    let s1 = sum_at(public)?;
    *public = orig.clone();
    let (md, ma) = (s1.0 - s0.0, s1.1 - s0.1);
    if md == F::zero() || ma == F::zero() {
        return None;
    }
    let dd = (F::one() - s0.0) * md.inv();
    let da = (k - s0.1) * ma.inv();
    fe_add::<F>(&mut public[off..off + fs], dd, false)?;
    fe_add::<F>(&mut public[off + fs..off + 2 * fs], da, false)?;
    let s2 = sum_at(public)?;
    if s2.0 == F::one() && s2.1 == k {
        Some(())
    } else {
        *public = orig;
        None
    }
}

#[allow(clippy::too_many_arguments)]
pub fn byz_rewrite_poplar(bits: usize, ctx: &[u8], nonce: &[u8; 16], meas: &[N], public: &mut Vec<u8>, inputs: &mut Vec<Vec<u8>>, edits: &[ByzEdit], aps: &[ApSpec]) -> Vec<ByzLabel> {
    let input = bits_to_string(meas);
    // honest authenticators per level (before any edit)
    let honest_auth: Vec<Option<Vec<u8>>> = (1..=bits).map(|l| eval_sum(bits, ctx, nonce, public, inputs, &input[..l]).map(|x| x.1)).collect();
    let ctrl = (2 * bits).div_ceil(8);
    let seeds_off = ctrl;
    let inner_off = ctrl + 16 * bits;
    let leaf_off = inner_off + 16 * (bits - 1);
    let honest_inputs: Vec<Vec<u8>> = inputs.clone();
    let mut notes: Vec<String> = Vec::new();
    for e in edits {
        match e {
            ByzEdit::Payload { level, beta, consistent } => {
                let l = *level as usize % bits;
                let on_path = &input[..l + 1];
                let r = if l == bits - 1 { reprogram::<Field255>(bits, ctx, nonce, public, inputs, on_path, leaf_off, beta, *consistent) } else { reprogram::<Field64>(bits, ctx, nonce, public, inputs, on_path, inner_off + 16 * l, beta, *consistent) };
                notes.push(r.unwrap_or_else(|| format!("payload rewrite at level {l} did not take")));
            }
            ByzEdit::GuessR { level, beta, guess } => {
                let l = *level as usize % bits;
                let on_path = &input[..l + 1];
                let leaf = l == bits - 1;
                let r = if leaf { reprogram::<Field255>(bits, ctx, nonce, public, inputs, on_path, leaf_off, beta, true) } else { reprogram::<Field64>(bits, ctx, nonce, public, inputs, on_path, inner_off + 16 * l, beta, true) };
                match r {
                    None => notes.push(format!("payload rewrite at level {l} did not take")),
                    Some(n) => {
                        // what the on-path candidate now evaluates to
                        let done = eval_sum(bits, ctx, nonce, public, inputs, on_path).and_then(|(d, _)| {
                            if leaf {
                                let off = 48 + 16 * (bits - 1) + 32;
                                let b = Field255::get_decoded(&d).ok()?;
                                let c = small::<Field255>(*guess as u64);
                                fe_add::<Field255>(&mut inputs[0][off..off + 32], (b * b - b) * c * c, true)
                            } else {
                                let off = 48 + 16 * l + 8;
                                let b = Field64::get_decoded(&d).ok()?;
                                let c = small::<Field64>(*guess as u64);
                                fe_add::<Field64>(&mut inputs[0][off..off + 8], (b * b - b) * c * c, true)
                            }
                        });
                        notes.push(format!("{n}; leader's B share of level {l} shifted to cancel the sketch check if the verification randomness were +-{guess}{}", if done.is_none() { " (shift failed)" } else { "" }));
                    }
                }
            }
            ByzEdit::ZeroCorr { agg, level } => {
                let a = *agg as usize % 2;
                let l = (*level as usize).min(bits - 1);
                let (off, len) = if l == bits - 1 { (48 + 16 * (bits - 1), 64) } else { (48 + 16 * l, 16) };
                for b in inputs[a][off..off + len].iter_mut() {
                    *b = 0;
                }
                notes.push(format!("A and B shares of aggregator {a} at level {l} set to zero"));
            }
            ByzEdit::SeedCw { m } => {
                let mut region = public[..inner_off].to_vec();
                raw_edit(&mut region, m, false);
                if region.len() == inner_off {
                    public[..inner_off].copy_from_slice(&region);
                    // keep unused control bits zero so that the share still decodes
                    let used = 2 * bits;
                    if used % 8 != 0 {
                        public[ctrl - 1] &= (1u16 << (used % 8)).wrapping_sub(1) as u8;
                    }
                }
                let _ = seeds_off;
                notes.push("seed / control-bit correction words mutated".into());
            }
            ByzEdit::CorrShare { agg, level, which, delta } => {
                let a = *agg as usize % 2;
                let l = (*level as usize).min(bits - 1);
                let w = *which as usize % 2;
                let d = (delta.0 as u64) | 1;
                if l == bits - 1 {
                    let off = 48 + 16 * (bits - 1) + 32 * w;
                    let _ = fe_add::<Field255>(&mut inputs[a][off..off + 32], small::<Field255>(d % 1000 + 1), false);
                } else {
                    let off = 48 + 16 * l + 8 * w;
                    let _ = fe_add::<Field64>(&mut inputs[a][off..off + 8], Field64::from(d), false);
                }
                notes.push(format!("{} share of aggregator {a} at level {l} altered", if w == 0 { "A" } else { "B" }));
            }
            ByzEdit::SplitOne { flip_level, dist } => {
                let fl = *flip_level as usize % bits;
                // the first parameter whose candidate list has the on-path prefix and a candidate
                // `dist` positions away inside the flipped sibling subtree
                let mut done = false;
                for ap in aps {
                    let plen = ap[0].len();
                    if plen <= fl + 1 || plen > bits {
                        continue;
                    }
                    let p = &input[..plen];
                    let Some(i) = ap.iter().position(|c| c == p) else { continue };
                    let d = *dist as usize;
                    let cand = [i.checked_add(d), i.checked_sub(d)].into_iter().flatten().filter_map(|j| ap.get(j)).find(|c| c[..fl] == p[..fl] && c.as_bytes()[fl] != p.as_bytes()[fl]);
                    let Some(dpre) = cand else { continue };
                    // flip the off-path control-bit correction at level fl
                    let off_side = if p.as_bytes()[fl] == b'1' { 0 } else { 1 };
                    let bit = 2 * fl + off_side;
                    public[bit / 8] ^= 1 << (bit % 8);
                    let level = plen - 1;
                    // inner levels only: Field255::inv() is `unimplemented!()` in the library, and the
                    // solve needs a field inverse
                    let r = if level == bits - 1 { None } else { split_solve::<Field64>(bits, ctx, nonce, public, inputs, p, dpre, inner_off + 16 * level, honest_auth[level].as_deref()) };
                    let _ = leaf_off;
                    match r {
                        Some(()) => notes.push(format!("one split between the on-path candidate {p} and the live candidate {dpre} ({d} positions apart): their values sum to (1, authenticator)")),
                        None => {
                            public[bit / 8] ^= 1 << (bit % 8);
                            notes.push("split-the-one rewrite had no solution (value correction applied with opposite signs)".into());
                        }
                    }
                    done = true;
                    break;
                }
                if !done {
                    notes.push("split-the-one rewrite not applicable to these candidates".into());
                }
            }
            ByzEdit::KeyBytes { agg, which, m } => {
                let a = *agg as usize % 2;
                let (lo, hi) = if *which % 2 == 0 { (0, 16) } else { (16, 48) };
                let mut region = inputs[a][lo..hi].to_vec();
                let before = region.clone();
                raw_edit(&mut region, m, true);
                if region.len() == hi - lo && region != before {
                    inputs[a][lo..hi].copy_from_slice(&region);
                    notes.push(format!("{} of aggregator {a} altered", if *which % 2 == 0 { "IDPF key" } else { "correlated-randomness seed" }));
                }
            }
        }
    }
    // labels by re-evaluation over each parameter's candidates
    let mut labels = Vec::new();
    for (ai, ap) in aps.iter().enumerate() {
        let plen = ap.first().map(|p| p.len()).unwrap_or(1);
        let level = plen - 1;
        let fs = if plen == bits { 32 } else { 8 };
        let zero = vec![0u8; fs];
        let mut one = vec![0u8; fs];
        one[0] = 1;
        let k = honest_auth.get(level).cloned().flatten();
        let mut ones = 0;
        let mut bad = false;
        let mut undecodable = false;
        for p in ap {
            match eval_sum(bits, ctx, nonce, public, inputs, p) {
                None => undecodable = true,
                Some((d, a)) => {
                    if d == zero && a == zero {
                    } else if d == one && Some(&a) == k.as_ref() {
                        ones += 1;
                    } else {
                        bad = true;
                    }
                }
            }
        }
        // what actually differs from the honest report in the end (edits may cancel each other)
        let corr_seed_touched = (0..2).any(|a| inputs[a][16..48] != honest_inputs[a][16..48]);
        let (lo, hi) = if level == bits - 1 { (48 + 16 * (bits - 1), 48 + 16 * (bits - 1) + 64) } else { (48 + 16 * level, 48 + 16 * level + 16) };
        let corr_level_touched = (0..2).any(|a| inputs[a][lo..hi] != honest_inputs[a][lo..hi]);
        let corr_bad = corr_seed_touched || corr_level_touched;
        let must_reject = undecodable || bad || ones > 1 || corr_bad;
        labels.push(ByzLabel { ap: ai as u32, must_reject, desc: format!("{}; over the {} candidates of length {plen}: {} one-entries, invalid entry: {bad}, correlated randomness of this level altered: {corr_bad}", notes.join("; "), ap.len(), ones) });
    }
    labels
}

fn raw_edit(b: &mut Vec<u8>, m: &Mutation, keep_len: bool) {
    match m {
        Mutation::Flip { pos, bit } if !b.is_empty() => {
            let p = *pos as usize % b.len();
            b[p] ^= 1 << (bit % 8);
        }
        Mutation::Set { pos, val } if !b.is_empty() => {
            let p = *pos as usize % b.len();
            b[p] = *val;
        }
        Mutation::FieldSet { elem, raw, .. } if b.len() >= 16 && raw.0.len() >= 16 => {
            let cnt = b.len() / 16;
            let e = *elem as usize % cnt;
            b[e * 16..e * 16 + 16].copy_from_slice(&raw.0[..16]);
        }
        Mutation::FieldAdd { elem, delta, .. } if !b.is_empty() => {
            let p = *elem as usize % b.len();
            b[p] = b[p].wrapping_add((delta.0 as u8) | 1);
        }
        _ => {
            if !keep_len && !b.is_empty() {
                b[0] ^= 1;
            } else if !b.is_empty() {
                let l = b.len();
                b[l - 1] ^= 0x80;
            }
        }
    }
}
