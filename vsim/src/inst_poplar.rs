//! Poplar1 instance class: adapter, layouts, generators of inputs and aggregation parameters.

use crate::core::guard;
use crate::inst::{Adapter, ApSpec, Inst, Kind, Region, ShardErr, SimVdaf};
use crate::model::P64;
use crate::rng::Rng;
use crate::util::N;
use prio::codec::{CodecError, Encode, ParameterizedDecode};
use prio::field::{Field255, Field64, FieldElement};
use prio::idpf::IdpfInput;
use prio::topology::ping_pong::PingPongContinuation;
use prio::vdaf::poplar1::{Poplar1, Poplar1AggregationParam, Poplar1FieldVec, Poplar1VerifierState};
use prio::vdaf::test_utils::TestVectorClient;
use prio::vdaf::xof::XofTurboShake128;

pub type Pop = Poplar1<XofTurboShake128, 32>;

impl SimVdaf<32> for Pop {
    fn enc_state(s: &Poplar1VerifierState) -> Result<Vec<u8>, CodecError> {
        s.get_encoded()
    }
    fn state_len_hint(s: &Poplar1VerifierState) -> Option<usize> {
        s.encoded_len()
    }
    fn dec_state(&self, agg_id: usize, b: &[u8]) -> Result<Poplar1VerifierState, CodecError> {
        Poplar1VerifierState::get_decoded_with_param(&(self, agg_id), b)
    }
    fn enc_cont(c: &PingPongContinuation<32, 16, Self>) -> Result<Vec<u8>, CodecError> {
        c.get_encoded()
    }
    fn cont_len_hint(c: &PingPongContinuation<32, 16, Self>) -> Option<usize> {
        c.encoded_len()
    }
    fn dec_cont(&self, agg_id: usize, b: &[u8]) -> Result<PingPongContinuation<32, 16, Self>, CodecError> {
        PingPongContinuation::get_decoded_with_param(&(self, agg_id), b)
    }
}

pub fn bits_to_input(bits: &[N]) -> IdpfInput {
    let b: Vec<bool> = bits.iter().map(|x| x.0 != 0).collect();
    IdpfInput::from_bools(&b)
}

pub fn str_to_input(s: &str) -> IdpfInput {
    let b: Vec<bool> = s.bytes().map(|c| c == b'1').collect();
    IdpfInput::from_bools(&b)
}

pub struct PopAd {
    pub inst: Inst,
}

impl PopAd {
    fn bits(&self) -> usize {
        self.inst.len as usize
    }
    fn is_leaf(&self, ap: &ApSpec) -> bool {
        ap.first().map(|p| p.len() == self.bits()).unwrap_or(false)
    }
}

impl Adapter<Pop> for PopAd {
    fn inst(&self) -> &Inst {
        &self.inst
    }
    fn rand_len(&self) -> usize {
        32 + 3 * 32
    }
    fn shard(&self, vdaf: &Pop, ctx: &[u8], meas: &[N], nonce: &[u8; 16], rand: &[u8], _evil: bool) -> Result<(Vec<u8>, Vec<Vec<u8>>), ShardErr> {
        if rand.len() != self.rand_len() {
            return Err(ShardErr::Refused("harness: wrong randomness length".into()));
        }
        let input = bits_to_input(meas);
        let r = guard("Poplar1::shard_with_random", || vdaf.shard_with_random(ctx, &input, nonce, rand)).map_err(ShardErr::Panic)?;
        match r {
            Ok((ps, shares)) => {
                let pb = guard("Poplar1PublicShare::encode", || ps.get_encoded()).map_err(ShardErr::Panic)?.map_err(|e| ShardErr::Refused(e.to_string()))?;
                let mut sb = Vec::new();
                for s in &shares {
                    sb.push(guard("Poplar1InputShare::encode", || s.get_encoded()).map_err(ShardErr::Panic)?.map_err(|e| ShardErr::Refused(e.to_string()))?);
                }
                Ok((pb, sb))
            }
            Err(e) => Err(ShardErr::Refused(e.to_string())),
        }
    }
    fn agg_param(&self, spec: &ApSpec) -> Result<Poplar1AggregationParam, String> {
        let prefixes: Vec<IdpfInput> = spec.iter().map(|s| str_to_input(s)).collect();
        match guard("Poplar1AggregationParam::try_from_prefixes", || Poplar1AggregationParam::try_from_prefixes(prefixes)) {
            Ok(Ok(p)) => Ok(p),
            Ok(Err(e)) => Err(format!("try_from_prefixes refused an admissible parameter: {e}")),
            Err(v) => Err(v.detail),
        }
    }
    fn result_vec(&self, r: &Vec<u64>) -> Vec<u128> {
        r.iter().map(|x| *x as u128).collect()
    }
    fn out_field(&self, ap: &ApSpec) -> (usize, u128) {
        if self.is_leaf(ap) {
            (32, 0)
        } else {
            (8, P64)
        }
    }
    fn out_len(&self, ap: &ApSpec) -> usize {
        ap.len()
    }
    fn layout(&self, kind: Kind, _agg: usize, round: u8, ap: &ApSpec) -> Vec<Region> {
        let bits = self.bits();
        let leaf = self.is_leaf(ap);
        let f = if leaf { 32 } else { 8 };
        let mut v = Vec::new();
        let mut off = 0;
        let mut push = |name: &'static str, len: usize, elem: usize, v: &mut Vec<Region>| {
            if len > 0 {
                v.push(Region { name, off, len, elem });
            }
            off += len;
        };
        match kind {
            Kind::Public => {
                push("control_bits", (2 * bits).div_ceil(8), 1, &mut v);
                push("seed_correction_words", 16 * bits, 1, &mut v);
                push("inner_payloads", 16 * (bits - 1), 8, &mut v);
                push("leaf_payload", 64, 32, &mut v);
            }
            Kind::Input => {
                push("idpf_key", 16, 1, &mut v);
                push("corr_seed", 32, 1, &mut v);
                push("corr_inner", 16 * (bits - 1), 8, &mut v);
                push("corr_leaf", 64, 32, &mut v);
            }
            Kind::VShare => {
                push("sketch_share", if round == 0 { 3 * f } else { f }, f, &mut v);
            }
            Kind::VMsg => {
                if round == 0 {
                    push("sketch", 3 * f, f, &mut v);
                }
            }
            Kind::State => {
                push("tags", 2, 1, &mut v);
                if round == 0 {
                    push("corr_ab", 2 * f, f, &mut v);
                }
                push("count", 4, 1, &mut v);
                push("output_share", ap.len() * f, f, &mut v);
            }
            Kind::Out | Kind::AggShare => {
                push("elements", ap.len() * f, f, &mut v);
            }
        }
        v
    }
    fn same_type_instance(&self, other: &Inst) -> Option<Pop> {
        if other.class != "poplar1" {
            return None;
        }
        Some(Poplar1::new_turboshake128(other.len as usize))
    }
    fn wrong_len_output(&self, bytes: &[u8], ap: &ApSpec, other_level: bool) -> Option<Poplar1FieldVec> {
        poplar_field_vec(self.is_leaf(ap) != other_level, bytes)
    }
}

/// Wrong-length / wrong-level shares for the refusal checks of C13.
#[allow(deprecated)]
pub fn poplar_field_vec(leaf: bool, bytes: &[u8]) -> Option<Poplar1FieldVec> {
    if leaf {
        Field255::byte_slice_into_vec(bytes).ok().map(Poplar1FieldVec::Leaf)
    } else {
        Field64::byte_slice_into_vec(bytes).ok().map(Poplar1FieldVec::Inner)
    }
}

pub fn gen_poplar_inst(rng: &mut Rng, deep: bool) -> Inst {
    let bits = if deep {
        *rng.pick(&[300u32, 1000, 4096, 21_850, 30_000, 65_535, 65_536])
    } else {
        *rng.pick(&[1u32, 2, 2, 3, 3, 4, 5, 5, 8, 8, 13, 16, 16, 32, 64, 64, 128, 256])
    };
    Inst { class: "poplar1".into(), n: 2, proofs: 1, max: N(1), len: bits, chunk: 1, weight: 1, mt: false, named: true }
}

pub fn bits_to_string(bits: &[N]) -> String {
    bits.iter().map(|b| if b.0 != 0 { '1' } else { '0' }).collect()
}

/// Candidate prefix set at `level` (prefix length level+1): some on the inputs' paths, some off.
pub fn gen_prefixes(rng: &mut Rng, inputs: &[Vec<N>], plen: usize, max: usize, parents: Option<&ApSpec>) -> ApSpec {
    let mut set = std::collections::BTreeSet::new();
    let want = 1 + rng.usize_below(max);
    let mut tries = 0;
    while set.len() < want && tries < 8 * want + 8 {
        tries += 1;
        let mut s: String = match parents {
            Some(ps) if !ps.is_empty() => ps[rng.usize_below(ps.len())].clone(),
            _ => String::new(),
        };
        if s.len() > plen {
            s.truncate(plen);
        }
        if parents.is_none() && !inputs.is_empty() && rng.chance(2, 3) {
            // on an input's path
            let m = &inputs[rng.usize_below(inputs.len())];
            s = bits_to_string(&m[..plen.min(m.len())]);
            if rng.chance(1, 4) && !s.is_empty() {
                // sibling / divergence at a random depth
                let d = rng.usize_below(s.len());
                let mut b: Vec<u8> = s.into_bytes();
                b[d] = if b[d] == b'1' { b'0' } else { b'1' };
                s = String::from_utf8(b).unwrap();
            }
        } else {
            while s.len() < plen {
                // extend: follow an input when possible, else random
                let follow = inputs.iter().find(|m| bits_to_string(&m[..s.len().min(m.len())]) == s && m.len() > s.len());
                let bit = match follow {
                    Some(m) if rng.chance(3, 4) => m[s.len()].0 != 0,
                    _ => rng.chance(1, 2),
                };
                s.push(if bit { '1' } else { '0' });
            }
        }
        if s.len() == plen {
            set.insert(s);
        }
    }
    if set.is_empty() {
        set.insert("0".repeat(plen));
    }
    set.into_iter().collect()
}

/// One aggregation parameter for the ping-pong world.
pub fn gen_ap_for(rng: &mut Rng, inst: &Inst, inputs: &[Vec<N>]) -> ApSpec {
    let bits = inst.len as usize;
    let plen = match rng.below(3) {
        0 => bits,
        1 => 1,
        _ => 1 + rng.usize_below(bits),
    };
    gen_prefixes(rng, inputs, plen, 6, None)
}

/// An admissible history of aggregation parameters: strictly increasing levels, each set
/// extending the previous one.
pub fn gen_ap_history(rng: &mut Rng, inst: &Inst, inputs: &[Vec<N>], max_hist: usize, max_set: usize) -> Vec<ApSpec> {
    let bits = inst.len as usize;
    let k = 1 + rng.usize_below(max_hist.min(bits));
    // choose k distinct prefix lengths, increasing; bias to include the leaf and level 0
    let mut lens = std::collections::BTreeSet::new();
    if rng.chance(1, 2) {
        lens.insert(bits);
    }
    if rng.chance(1, 3) {
        lens.insert(1);
    }
    let mut tries = 0;
    while lens.len() < k && tries < 50 {
        lens.insert(1 + rng.usize_below(bits));
        tries += 1;
    }
    let mut hist: Vec<ApSpec> = Vec::new();
    for l in lens {
        let ap = gen_prefixes(rng, inputs, l, max_set, hist.last());
        hist.push(ap);
    }
    hist
}
