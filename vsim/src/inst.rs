//! VDAF instance classes, construction from plain parameters, and per-class adapters
//! (measurement conversion, reference aggregate, validity predicate, wire layouts, Byzantine
//! client). Everything here is harness code; the VDAF objects it builds are the real library.

use crate::core::{guard, Violation};
use crate::rng::Rng;
use crate::util::N;
use prio::codec::{CodecError, Encode, ParameterizedDecode};
use prio::field::{Field128, Field64, FieldElementWithInteger};
use prio::flp::gadgets::{Mul, ParallelSum, ParallelSumMultithreaded};
use prio::flp::types::{Average, Count, Histogram, L1BoundSum, MultihotCountVec, Sum, SumVec};
use prio::flp::{Flp, FlpError, Gadget, Type};
use prio::topology::ping_pong::PingPongContinuation;
use prio::vdaf::prio3::Prio3;
use prio::vdaf::test_utils::TestVectorClient;
use prio::vdaf::xof::XofTurboShake128;
use prio::vdaf::{Aggregator, Collector, Vdaf, VdafError};
use serde::{Deserialize, Serialize};

/// Plain-parameter description of a VDAF instance (part of every plan).
#[derive(Clone, Debug, Serialize, Deserialize, PartialEq, Eq)]
pub struct Inst {
    /// count | sum | avg | sumvec | sumvec64 | hist | multihot | l1 | poplar1 | prio2
    pub class: String,
    /// number of aggregators
    pub n: u8,
    /// number of proofs
    pub proofs: u8,
    /// max measurement / bound
    pub max: N,
    /// vector length / number of buckets / input length / bits (poplar1)
    pub len: u32,
    pub chunk: u32,
    /// max weight (multihot)
    pub weight: u32,
    /// use the `*Multithreaded` variant (over the simrayon stub)
    #[serde(default)]
    pub mt: bool,
    /// use the named public constructor (`new_count`, `new_sum_vec`, ...) when possible
    #[serde(default)]
    pub named: bool,
    /// Prio3 only: the XOF the instance is built over: "" = XofTurboShake128 (32-byte seeds),
    /// "hmac" = XofHmacSha256Aes128 (32), "fixedkey" = XofFixedKeyAes128 (16-byte seeds and verify key)
    #[serde(default, skip_serializing_if = "String::is_empty")]
    pub xof: String,
}

impl Inst {
    pub fn label(&self) -> String {
        format!("{}{}", self.class, if self.mt { "-mt" } else { "" })
    }
    pub fn is_prio3(&self) -> bool {
        !matches!(self.class.as_str(), "poplar1" | "prio2")
    }
    /// seed / verification-key size of the instance
    pub fn seed_size(&self) -> usize {
        if self.is_prio3() && self.xof == "fixedkey" {
            16
        } else {
            32
        }
    }
    pub fn has_joint_rand(&self) -> bool {
        matches!(self.class.as_str(), "sumvec" | "sumvec64" | "hist" | "multihot" | "l1")
    }
}

/// Aggregation parameter in plan form: Prio3/Prio2 → empty; Poplar1 → prefixes as '0'/'1' strings.
pub type ApSpec = Vec<String>;

#[derive(Clone, Copy, Debug, PartialEq, Eq, Serialize, Deserialize, Hash)]
pub enum Kind {
    Public,
    Input,
    VShare,
    VMsg,
    State,
    Out,
    AggShare,
}

/// A contiguous region of an encoded message: `elem` = field element size, or 1 for raw bytes.
#[derive(Clone, Debug)]
pub struct Region {
    pub name: &'static str,
    pub off: usize,
    pub len: usize,
    pub elem: usize,
}

/// The slice of the VDAF interface the worlds need beyond the library traits.
pub trait SimVdaf<const VK: usize>: Aggregator<VK, 16, InputShare: 'static, PublicShare: 'static> + Collector + Sized + 'static {
    fn enc_state(s: &Self::VerifyState) -> Result<Vec<u8>, CodecError>;
    fn state_len_hint(s: &Self::VerifyState) -> Option<usize>;
    fn dec_state(&self, agg_id: usize, b: &[u8]) -> Result<Self::VerifyState, CodecError>;
    fn enc_cont(c: &PingPongContinuation<VK, 16, Self>) -> Result<Vec<u8>, CodecError>;
    fn cont_len_hint(c: &PingPongContinuation<VK, 16, Self>) -> Option<usize>;
    fn dec_cont(&self, agg_id: usize, b: &[u8]) -> Result<PingPongContinuation<VK, 16, Self>, CodecError>;
}

impl<T: Type + 'static, X: prio::vdaf::xof::Xof<S> + 'static, const S: usize> SimVdaf<S> for Prio3<T, X, S>
where
    Prio3<T, X, S>: Aggregator<S, 16, VerifyState = prio::vdaf::prio3::Prio3VerifyState<T::Field, S>> + Collector,
{
    fn enc_state(s: &Self::VerifyState) -> Result<Vec<u8>, CodecError> {
        s.get_encoded()
    }
    fn state_len_hint(s: &Self::VerifyState) -> Option<usize> {
        s.encoded_len()
    }
    fn dec_state(&self, agg_id: usize, b: &[u8]) -> Result<Self::VerifyState, CodecError> {
        prio::vdaf::prio3::Prio3VerifyState::get_decoded_with_param(&(self, agg_id), b)
    }
    fn enc_cont(c: &PingPongContinuation<S, 16, Self>) -> Result<Vec<u8>, CodecError> {
        c.get_encoded()
    }
    fn cont_len_hint(c: &PingPongContinuation<S, 16, Self>) -> Option<usize> {
        c.encoded_len()
    }
    fn dec_cont(&self, agg_id: usize, b: &[u8]) -> Result<PingPongContinuation<S, 16, Self>, CodecError> {
        PingPongContinuation::get_decoded_with_param(&(self, agg_id), b)
    }
}

pub enum ShardErr {
    /// the library returned an error (legitimate for invalid measurements)
    Refused(String),
    /// the library panicked
    Panic(Violation),
}

/// Per-class knowledge the worlds need. All integer views of field elements are u128.
pub trait Adapter<V: Vdaf> {
    fn inst(&self) -> &Inst;
    /// length of the sharding randomness
    fn rand_len(&self) -> usize;
    /// shard through the library; `evil` = the measurement is a raw encoded field vector that
    /// the library's own sharding proves over verbatim (Byzantine client)
    fn shard(&self, vdaf: &V, ctx: &[u8], meas: &[N], nonce: &[u8; 16], rand: &[u8], evil: bool) -> Result<(Vec<u8>, Vec<Vec<u8>>), ShardErr>;
    fn agg_param(&self, spec: &ApSpec) -> Result<V::AggregationParam, String>;
    fn result_vec(&self, r: &V::AggregateResult) -> Vec<u128>;
    /// (field element size, modulus) of output shares under this agg param (modulus 0 = Field255)
    fn out_field(&self, ap: &ApSpec) -> (usize, u128);
    fn out_len(&self, ap: &ApSpec) -> usize;
    fn layout(&self, kind: Kind, agg: usize, round: u8, ap: &ApSpec) -> Vec<Region>;
    /// build an output share of a wrong length from raw element bytes (for refusal checks)
    fn wrong_len_output(&self, bytes: &[u8], ap: &ApSpec, other_level: bool) -> Option<V::OutputShare>;
    /// Byzantine client by wire rewrites (Poplar1): edit the honest report in place and label,
    /// per aggregation parameter, what re-evaluation with the real code shows
    #[allow(clippy::too_many_arguments)]
    fn byz_rewrite(&self, _vdaf: &V, _ctx: &[u8], _nonce: &[u8; 16], _meas: &[N], _public: &mut Vec<u8>, _inputs: &mut Vec<Vec<u8>>, _edits: &[crate::world_a::ByzEdit], _aps: &[ApSpec]) -> Vec<crate::world_a::ByzLabel> {
        Vec::new()
    }
    /// is a single alteration at `site` guaranteed to make verification of a job with aggregation
    /// parameter `ap` fail (strict oracle)? Default: yes.
    fn strict_applies(&self, _site: &crate::world_a::Site, _ap: &ApSpec, _meas: &[N]) -> bool {
        true
    }
    /// another instance of the SAME Rust type with other parameters (for cross-instance misuse)
    fn same_type_instance(&self, _other: &Inst) -> Option<V> {
        None
    }
    /// when the instance was built by a named constructor (`new_sum_vec`, ...): the instance the same parameters
    /// give through the generic constructor with an explicitly built type. The two must interoperate on the wire.
    fn generic_twin(&self) -> Option<&V> {
        None
    }
    /// the same instance under the algorithm identifier `id ^ xor` (C18 algorithm-identifier skew)
    fn alt_algorithm(&self, _vdaf: &V, _xor: u32) -> Option<V> {
        None
    }
}

// ---- Byzantine client seam: a Type that encodes a raw field vector verbatim --------------------

#[derive(Clone, Debug, PartialEq, Eq)]
pub struct Evil<T: Type>(pub T);

impl<T: Type> Flp for Evil<T> {
    type Field = T::Field;
    fn gadget(&self) -> Vec<Box<dyn Gadget<Self::Field>>> {
        self.0.gadget()
    }
    fn num_gadgets(&self) -> usize {
        self.0.num_gadgets()
    }
    fn valid(&self, g: &mut Vec<Box<dyn Gadget<Self::Field>>>, input: &[Self::Field], jr: &[Self::Field], n: usize) -> Result<Vec<Self::Field>, FlpError> {
        self.0.valid(g, input, jr, n)
    }
    fn input_len(&self) -> usize {
        self.0.input_len()
    }
    fn proof_len(&self) -> usize {
        self.0.proof_len()
    }
    fn verifier_len(&self) -> usize {
        self.0.verifier_len()
    }
    fn joint_rand_len(&self) -> usize {
        self.0.joint_rand_len()
    }
    fn eval_output_len(&self) -> usize {
        self.0.eval_output_len()
    }
    fn prove_rand_len(&self) -> usize {
        self.0.prove_rand_len()
    }
    fn query_rand_len(&self) -> usize {
        self.0.query_rand_len()
    }
    fn prove(&self, input: &[Self::Field], pr: &[Self::Field], jr: &[Self::Field]) -> Result<Vec<Self::Field>, FlpError> {
        self.0.prove(input, pr, jr)
    }
    fn query(&self, input: &[Self::Field], proof: &[Self::Field], qr: &[Self::Field], jr: &[Self::Field], n: usize) -> Result<Vec<Self::Field>, FlpError> {
        self.0.query(input, proof, qr, jr, n)
    }
    fn decide(&self, v: &[Self::Field]) -> Result<bool, FlpError> {
        self.0.decide(v)
    }
}

impl<T: Type> Type for Evil<T> {
    type Measurement = Vec<T::Field>;
    type AggregateResult = T::AggregateResult;
    fn encode_measurement(&self, m: &Vec<T::Field>) -> Result<Vec<T::Field>, FlpError> {
        if m.len() != self.0.input_len() {
            return Err(FlpError::Encode("evil: wrong raw length".into()));
        }
        Ok(m.clone())
    }
    fn truncate(&self, input: Vec<T::Field>) -> Result<Vec<T::Field>, FlpError> {
        self.0.truncate(input)
    }
    fn decode_result(&self, data: &[T::Field], n: usize) -> Result<T::AggregateResult, FlpError> {
        self.0.decode_result(data, n)
    }
    fn output_len(&self) -> usize {
        self.0.output_len()
    }
}

// ---- a two-gadget circuit built from public parts (harness code) --------------------------------------
//
// Every circuit the library ships has exactly one gadget, but `Flp` explicitly supports several. This small circuit
// (pairs (x, y) with 2 <= x < 5 and y = x^3: `Mul` called twice, `PolyEval` of (X-2)(X-3)(X-4) called once; outputs
// [x^3 - y, range(x)]) lets the Byzantine-client and tampering configurations reach the multi-gadget paths of
// prove / query / decide.
#[derive(Clone, Debug, PartialEq, Eq)]
pub struct CubeInRange;

impl Flp for CubeInRange {
    type Field = Field128;
    fn gadget(&self) -> Vec<Box<dyn Gadget<Field128>>> {
        let f = |x: u128| Field128::from(x);
        vec![Box::new(Mul::new(2)), Box::new(prio::flp::gadgets::PolyEval::new(vec![-f(24), f(26), -f(9), f(1)], 1))]
    }
    fn num_gadgets(&self) -> usize {
        2
    }
    fn valid(&self, g: &mut Vec<Box<dyn Gadget<Field128>>>, input: &[Field128], joint_rand: &[Field128], _n: usize) -> Result<Vec<Field128>, FlpError> {
        self.valid_call_check(input, joint_rand)?;
        let (x, y) = (input[0], input[1]);
        let x2 = g[0].eval(&[x, x])?;
        let x3 = g[0].eval(&[x2, x])?;
        let range = g[1].eval(&[x])?;
        Ok(vec![x3 - y, range])
    }
    fn input_len(&self) -> usize {
        2
    }
    fn proof_len(&self) -> usize {
        (2 + 7) + (1 + 4)
    }
    fn verifier_len(&self) -> usize {
        1 + (2 + 1) + (1 + 1)
    }
    fn joint_rand_len(&self) -> usize {
        0
    }
    fn eval_output_len(&self) -> usize {
        2
    }
    fn prove_rand_len(&self) -> usize {
        3
    }
}

impl Type for CubeInRange {
    type Measurement = (u128, u128);
    type AggregateResult = (u128, u128);
    fn encode_measurement(&self, m: &(u128, u128)) -> Result<Vec<Field128>, FlpError> {
        Ok(vec![Field128::from(m.0), Field128::from(m.1)])
    }
    fn truncate(&self, input: Vec<Field128>) -> Result<Vec<Field128>, FlpError> {
        self.truncate_call_check(&input)?;
        Ok(input)
    }
    fn decode_result(&self, data: &[Field128], _n: usize) -> Result<(u128, u128), FlpError> {
        Ok((u128::from(data[0]), u128::from(data[1])))
    }
    fn output_len(&self) -> usize {
        2
    }
}

// ---- Prio3 adapter ------------------------------------------------------------------------------

pub trait IntoU128 {
    fn to_u128(self) -> u128;
}
impl IntoU128 for u64 {
    fn to_u128(self) -> u128 {
        self as u128
    }
}
impl IntoU128 for u128 {
    fn to_u128(self) -> u128 {
        self
    }
}
impl IntoU128 for u32 {
    fn to_u128(self) -> u128 {
        self as u128
    }
}

pub fn field_from_u128<F: FieldElementWithInteger>(x: u128) -> F
where
    F::Integer: TryFrom<u128>,
{
    match F::Integer::try_from(x) {
        Ok(i) => F::from(i),
        Err(_) => panic!("harness: raw value does not fit the field integer"),
    }
}

/// How a class maps plan measurements to the library's measurement type and back.
pub trait P3Class {
    type T: Type + 'static;
    fn typ(&self) -> &Self::T;
    fn make(inst: &Inst) -> Option<Self::T>;
    fn meas(&self, m: &[N]) -> <Self::T as Type>::Measurement;
    fn result_vec(&self, r: &<Self::T as Type>::AggregateResult) -> Vec<u128>;
}

pub struct P3Ad<C: P3Class, X: prio::vdaf::xof::Xof<S>, const S: usize> {
    pub inst: Inst,
    pub cls: C,
    pub evil: Prio3<Evil<C::T>, X, S>,
    /// Some when the instance under test came from a named constructor
    pub generic: Option<Prio3<C::T, X, S>>,
    pub modulus: u128,
    pub fsize: usize,
}

pub use crate::model::{add_mod, bits_of, P64};

impl<C: P3Class, X: prio::vdaf::xof::Xof<S>, const S: usize> P3Ad<C, X, S>
where
    <<C::T as Flp>::Field as FieldElementWithInteger>::Integer: IntoU128 + TryFrom<u128>,
{
    fn p(&self) -> u128 {
        self.modulus
    }
}

impl<C: P3Class, X: prio::vdaf::xof::Xof<S> + 'static, const S: usize> Adapter<Prio3<C::T, X, S>> for P3Ad<C, X, S>
where
    <<C::T as Flp>::Field as FieldElementWithInteger>::Integer: IntoU128 + TryFrom<u128>,
{
    fn inst(&self) -> &Inst {
        &self.inst
    }
    fn rand_len(&self) -> usize {
        let n = self.inst.n as usize;
        if self.cls.typ().joint_rand_len() == 0 {
            n * S
        } else {
            2 * n * S
        }
    }
    fn shard(&self, vdaf: &Prio3<C::T, X, S>, ctx: &[u8], meas: &[N], nonce: &[u8; 16], rand: &[u8], evil: bool) -> Result<(Vec<u8>, Vec<Vec<u8>>), ShardErr> {
        let r = if evil {
            let raw: Vec<<C::T as Flp>::Field> = meas.iter().map(|x| field_from_u128::<<C::T as Flp>::Field>(x.0)).collect();
            guard("Prio3<Evil>::shard_with_random", || self.evil.shard_with_random(ctx, &raw, nonce, rand)).map_err(ShardErr::Panic)?
        } else {
            let m = self.cls.meas(meas);
            guard("Prio3::shard_with_random", || vdaf.shard_with_random(ctx, &m, nonce, rand)).map_err(ShardErr::Panic)?
        };
        match r {
            Ok((ps, shares)) => {
                let pb = ps.get_encoded().map_err(|e| ShardErr::Refused(format!("public share encode: {e}")))?;
                let mut sb = Vec::new();
                for s in &shares {
                    sb.push(s.get_encoded().map_err(|e| ShardErr::Refused(format!("input share encode: {e}")))?);
                }
                Ok((pb, sb))
            }
            Err(e) => Err(ShardErr::Refused(e.to_string())),
        }
    }
    fn agg_param(&self, _spec: &ApSpec) -> Result<(), String> {
        Ok(())
    }
    fn result_vec(&self, r: &<C::T as Type>::AggregateResult) -> Vec<u128> {
        self.cls.result_vec(r)
    }
    fn out_field(&self, _ap: &ApSpec) -> (usize, u128) {
        (self.fsize, self.modulus)
    }
    fn out_len(&self, _ap: &ApSpec) -> usize {
        self.cls.typ().output_len()
    }
    fn layout(&self, kind: Kind, agg: usize, _round: u8, _ap: &ApSpec) -> Vec<Region> {
        let t = self.cls.typ();
        let f = self.fsize;
        let jr = t.joint_rand_len() > 0;
        let n = self.inst.n as usize;
        let proofs = self.inst.proofs as usize;
        let mut v = Vec::new();
        let mut off = 0;
        let mut push = |name: &'static str, len: usize, elem: usize, v: &mut Vec<Region>| {
            if len > 0 {
                v.push(Region { name, off, len, elem });
            }
            off += len;
        };
        match kind {
            Kind::Public => {
                if jr {
                    push("joint_rand_parts", S * n, 1, &mut v);
                }
            }
            Kind::Input => {
                if agg == 0 {
                    push("measurement_share", t.input_len() * f, f, &mut v);
                    push("proofs_share", t.proof_len() * proofs * f, f, &mut v);
                    if jr {
                        push("joint_rand_blind", S, 1, &mut v);
                    }
                } else {
                    push("share_seed", S, 1, &mut v);
                    if jr {
                        push("joint_rand_blind", S, 1, &mut v);
                    }
                }
            }
            Kind::VShare => {
                push("verifiers", t.verifier_len() * proofs * f, f, &mut v);
                if jr {
                    push("joint_rand_part", S, 1, &mut v);
                }
            }
            Kind::VMsg => {
                if jr {
                    push("joint_rand_seed", S, 1, &mut v);
                }
            }
            Kind::State => {
                if agg == 0 {
                    push("output_share", t.output_len() * f, f, &mut v);
                } else {
                    push("share_seed", S, 1, &mut v);
                }
                if jr {
                    push("joint_rand_seed", S, 1, &mut v);
                }
            }
            Kind::Out | Kind::AggShare => {
                push("elements", t.output_len() * f, f, &mut v);
            }
        }
        v
    }
    fn same_type_instance(&self, other: &Inst) -> Option<Prio3<C::T, X, S>> {
        use prio::vdaf::Vdaf;
        if other.class != self.inst.class || other.mt != self.inst.mt || other.xof != self.inst.xof {
            return None;
        }
        let typ = C::make(other)?;
        Prio3::new(other.n, other.proofs, self.evil.algorithm_id(), typ).ok()
    }
    fn generic_twin(&self) -> Option<&Prio3<C::T, X, S>> {
        self.generic.as_ref()
    }
    fn alt_algorithm(&self, vdaf: &Prio3<C::T, X, S>, xor: u32) -> Option<Prio3<C::T, X, S>> {
        use prio::vdaf::Vdaf;
        Prio3::new(self.inst.n, self.inst.proofs, vdaf.algorithm_id() ^ xor, self.cls.typ().clone()).ok()
    }
    #[allow(deprecated)]
    fn wrong_len_output(&self, bytes: &[u8], _ap: &ApSpec, other_level: bool) -> Option<prio::vdaf::OutputShare<<C::T as Flp>::Field>> {
        use prio::field::FieldElement;
        if other_level {
            return None;
        }
        <<C::T as Flp>::Field as FieldElement>::byte_slice_into_vec(bytes).ok().map(prio::vdaf::OutputShare::from)
    }
}

// ---- concrete classes -------------------------------------------------------------------------------

macro_rules! p3class {
    ($name:ident, $t:ty, |$s:ident, $m:ident| $meas:expr, |$r:ident| $res:expr, |$i:ident| $make:expr) => {
        pub struct $name(pub $t);
        impl P3Class for $name {
            type T = $t;
            fn typ(&self) -> &$t {
                &self.0
            }
            fn make($i: &Inst) -> Option<$t> {
                $make
            }
            fn meas(&self, $m: &[N]) -> <$t as Type>::Measurement {
                let $s = self;
                let _ = $s;
                $meas
            }
            fn result_vec(&self, $r: &<$t as Type>::AggregateResult) -> Vec<u128> {
                $res
            }
        }
    };
}

type PS128 = ParallelSum<Field128, Mul>;
type PS64 = ParallelSum<Field64, Mul>;
type PSM128 = ParallelSumMultithreaded<Field128, Mul>;

p3class!(CCount, Count<Field64>, |s, m| m[0].0 != 0, |r| vec![*r as u128], |i| { let _ = i; Some(Count::new()) });
p3class!(CSum, Sum<Field64>, |s, m| m[0].0 as u64, |r| vec![*r as u128], |i| Sum::new(i.max.0 as u64).ok());
p3class!(CAvg, Average<Field128>, |s, m| m[0].0, |r| vec![r.to_bits() as u128], |i| Average::new(i.max.0).ok());
p3class!(CSumVec, SumVec<Field128, PS128>, |s, m| m.iter().map(|x| x.0).collect(), |r| r.clone(), |i| SumVec::new(i.max.0, i.len as usize, i.chunk as usize).ok());
p3class!(CSumVecMt, SumVec<Field128, PSM128>, |s, m| m.iter().map(|x| x.0).collect(), |r| r.clone(), |i| SumVec::new(i.max.0, i.len as usize, i.chunk as usize).ok());
p3class!(CSumVec64, SumVec<Field64, PS64>, |s, m| m.iter().map(|x| x.0 as u64).collect(), |r| r.iter().map(|x| *x as u128).collect(), |i| SumVec::new(i.max.0 as u64, i.len as usize, i.chunk as usize).ok());
p3class!(CHist, Histogram<Field128, PS128>, |s, m| m[0].0 as usize, |r| r.clone(), |i| Histogram::new(i.len as usize, i.chunk as usize).ok());
p3class!(CHistMt, Histogram<Field128, PSM128>, |s, m| m[0].0 as usize, |r| r.clone(), |i| Histogram::new(i.len as usize, i.chunk as usize).ok());
p3class!(CMulti, MultihotCountVec<Field128, PS128>, |s, m| m.iter().map(|x| x.0 != 0).collect(), |r| r.clone(), |i| MultihotCountVec::new(i.len as usize, i.weight as usize, i.chunk as usize).ok());
p3class!(CMultiMt, MultihotCountVec<Field128, PSM128>, |s, m| m.iter().map(|x| x.0 != 0).collect(), |r| r.clone(), |i| MultihotCountVec::new(i.len as usize, i.weight as usize, i.chunk as usize).ok());
p3class!(CCube, CubeInRange, |s, m| (m[0].0, m[1].0), |r| vec![r.0, r.1], |i| { let _ = i; Some(CubeInRange) });
p3class!(CL1, L1BoundSum<Field128, PS128>, |s, m| m.iter().map(|x| x.0).collect(), |r| r.clone(), |i| L1BoundSum::new(i.max.0, i.len as usize, i.chunk as usize).ok());

pub enum BuildErr {
    Refused(String),
    Panic(Violation),
    Unknown(String),
}

/// Something to do with a built instance, generic over the concrete VDAF type.
pub trait Visitor {
    type Out;
    fn visit<V, A, const VK: usize>(self, vdaf: &V, ad: &A) -> Self::Out
    where
        V: SimVdaf<VK>,
        A: Adapter<V>;
}

fn flp_err(e: FlpError) -> BuildErr {
    BuildErr::Refused(e.to_string())
}
fn vdaf_err(e: VdafError) -> BuildErr {
    BuildErr::Refused(e.to_string())
}

fn go_p3<C: P3Class, Vis: Visitor>(inst: &Inst, cls: C, named: Option<Result<Prio3<C::T, XofTurboShake128, 32>, VdafError>>, alg: u32, vis: Vis) -> Result<Vis::Out, BuildErr>
where
    <<C::T as Flp>::Field as FieldElementWithInteger>::Integer: IntoU128 + TryFrom<u128>,
{
    match inst.xof.as_str() {
        "" | "turboshake" => go_p3x::<C, XofTurboShake128, 32, Vis>(inst, cls, named, alg, vis),
        // other XOFs: always through the generic constructor (the named constructors fix TurboSHAKE128)
        "hmac" => go_p3x::<C, prio::vdaf::xof::XofHmacSha256Aes128, 32, Vis>(inst, cls, None, alg, vis),
        "fixedkey" => go_p3x::<C, prio::vdaf::xof::XofFixedKeyAes128, 16, Vis>(inst, cls, None, alg, vis),
        x => Err(BuildErr::Unknown(format!("unknown xof {x}"))),
    }
}

fn go_p3x<C: P3Class, X: prio::vdaf::xof::Xof<S> + 'static, const S: usize, Vis: Visitor>(inst: &Inst, cls: C, named: Option<Result<Prio3<C::T, X, S>, VdafError>>, alg: u32, vis: Vis) -> Result<Vis::Out, BuildErr>
where
    <<C::T as Flp>::Field as FieldElementWithInteger>::Integer: IntoU128 + TryFrom<u128>,
{
    let was_named = named.is_some();
    let vdaf = match named {
        Some(r) => r.map_err(vdaf_err)?,
        None => Prio3::new(inst.n, inst.proofs, alg, cls.typ().clone()).map_err(vdaf_err)?,
    };
    let evil = Prio3::new(inst.n, inst.proofs, vdaf.algorithm_id(), Evil(cls.typ().clone())).map_err(vdaf_err)?;
    let generic = if was_named { Prio3::new(inst.n, inst.proofs, vdaf.algorithm_id(), cls.typ().clone()).ok() } else { None };
    let modulus = <<C::T as Flp>::Field as FieldElementWithInteger>::modulus().to_u128();
    let fsize = <<C::T as Flp>::Field as prio::field::FieldElement>::ENCODED_SIZE;
    let ad = P3Ad { inst: inst.clone(), cls, evil, generic, modulus, fsize };
    Ok(vis.visit::<_, _, S>(&vdaf, &ad))
}

/// Build the instance described by `inst` with the real library constructors and hand it to `vis`.
pub fn dispatch<Vis: Visitor>(inst: &Inst, vis: Vis) -> Result<Vis::Out, BuildErr> {
    let r = guard("constructor", || dispatch_inner(inst, vis));
    match r {
        Ok(x) => x,
        Err(v) => Err(BuildErr::Panic(v)),
    }
}

fn dispatch_inner<Vis: Visitor>(inst: &Inst, vis: Vis) -> Result<Vis::Out, BuildErr> {
    let n = inst.n;
    let max = inst.max.0;
    let len = inst.len as usize;
    let chunk = inst.chunk as usize;
    let use_named = inst.named && inst.proofs == 1;
    match (inst.class.as_str(), inst.mt) {
        ("count", _) => go_p3(inst, CCount(Count::new()), use_named.then(|| Prio3::new_count(n)), 1, vis),
        ("sum", _) => {
            let t = Sum::<Field64>::new(max as u64).map_err(flp_err)?;
            go_p3(inst, CSum(t), use_named.then(|| Prio3::new_sum(n, max as u64)), 2, vis)
        }
        ("avg", _) => {
            let t = Average::<Field128>::new(max).map_err(flp_err)?;
            go_p3(inst, CAvg(t), use_named.then(|| Prio3::new_average(n, max)), 0xFFFF0000, vis)
        }
        ("sumvec", false) => {
            let t = SumVec::<Field128, PS128>::new(max, len, chunk).map_err(flp_err)?;
            go_p3(inst, CSumVec(t), use_named.then(|| Prio3::new_sum_vec(n, max, len, chunk)), 3, vis)
        }
        ("sumvec", true) => {
            let t = SumVec::<Field128, PSM128>::new(max, len, chunk).map_err(flp_err)?;
            go_p3(inst, CSumVecMt(t), use_named.then(|| Prio3::new_sum_vec_multithreaded(n, max, len, chunk)), 3, vis)
        }
        ("sumvec64", _) => {
            let t = SumVec::<Field64, PS64>::new(max as u64, len, chunk).map_err(flp_err)?;
            go_p3(inst, CSumVec64(t), None, 0xFFFF1003, vis)
        }
        ("hist", false) => {
            let t = Histogram::<Field128, PS128>::new(len, chunk).map_err(flp_err)?;
            go_p3(inst, CHist(t), use_named.then(|| Prio3::new_histogram(n, len, chunk)), 4, vis)
        }
        ("hist", true) => {
            let t = Histogram::<Field128, PSM128>::new(len, chunk).map_err(flp_err)?;
            go_p3(inst, CHistMt(t), use_named.then(|| Prio3::new_histogram_multithreaded(n, len, chunk)), 4, vis)
        }
        ("multihot", false) => {
            let t = MultihotCountVec::<Field128, PS128>::new(len, inst.weight as usize, chunk).map_err(flp_err)?;
            go_p3(inst, CMulti(t), use_named.then(|| Prio3::new_multihot_count_vec(n, len, inst.weight as usize, chunk)), 5, vis)
        }
        ("multihot", true) => {
            let t = MultihotCountVec::<Field128, PSM128>::new(len, inst.weight as usize, chunk).map_err(flp_err)?;
            go_p3(inst, CMultiMt(t), use_named.then(|| Prio3::new_multihot_count_vec_multithreaded(n, len, inst.weight as usize, chunk)), 5, vis)
        }
        ("l1", _) => {
            let t = L1BoundSum::<Field128, PS128>::new(max, len, chunk).map_err(flp_err)?;
            go_p3(inst, CL1(t), use_named.then(|| Prio3::new_l1_bound_sum(n, max, len, chunk)), 7, vis)
        }
        ("cube", _) => go_p3(inst, CCube(CubeInRange), None, 0xFFFF2001, vis),
        ("poplar1", _) => {
            let vdaf = prio::vdaf::poplar1::Poplar1::new_turboshake128(len);
            let ad = crate::inst_poplar::PopAd { inst: inst.clone() };
            Ok(vis.visit::<_, _, 32>(&vdaf, &ad))
        }
        ("prio2", _) => {
            let vdaf = prio::vdaf::prio2::Prio2::new(len).map_err(vdaf_err)?;
            let ad = crate::inst_prio2::Prio2Ad { inst: inst.clone() };
            Ok(vis.visit::<_, _, 32>(&vdaf, &ad))
        }
        (c, _) => Err(BuildErr::Unknown(format!("unknown class {c}"))),
    }
}

// ---- instance generation (swarm style) -------------------------------------------------------------


fn pick_n(rng: &mut Rng) -> u8 {
    *rng.pick(&[2u8, 2, 2, 3, 3, 3, 4, 4, 5, 6, 8, 17])
}

fn pick_bound(rng: &mut Rng, p: u128, cap_bits: u32) -> u128 {
    let k = 1 + rng.below(cap_bits as u64) as u32;
    let pow = if k >= 128 { u128::MAX } else { 1u128 << k };
    let b = match rng.below(8) {
        0 => 1,
        1 => pow - 1,
        2 => pow,
        3 => pow + 1,
        4 => p - 1,
        5 => 2,
        _ => 1 + rng.u128() % pow,
    };
    b.clamp(1, p - 1)
}

fn pick_chunk(rng: &mut Rng, ilen: usize) -> u32 {
    let c = match rng.below(7) {
        0 => 1,
        1 => ilen,
        2 => ilen + 1 + rng.usize_below(3),
        3 => {
            // a divisor
            let ds: Vec<usize> = (1..=ilen).filter(|d| ilen % d == 0).collect();
            *rng.pick(&ds)
        }
        4 => {
            // remainder 1 if possible
            let ds: Vec<usize> = (2..=ilen).filter(|d| ilen % d == 1).collect();
            if ds.is_empty() { 2 } else { *rng.pick(&ds) }
        }
        5 => (ilen as f64).sqrt().ceil() as usize,
        _ => 1 + rng.usize_below(ilen + 2),
    };
    c.max(1) as u32
}

/// Draw a Prio3 instance; `small` keeps sizes tiny (for position-exhaustive fault placement).
/// Prio3 is generic over the XOF: a quarter of the instances are built over one of the other two shipped XOFs
/// (XofHmacSha256Aes128 as in Prio3SumVecField64MultiproofHmacSha256Aes128; XofFixedKeyAes128 with 16-byte seeds).
pub fn pick_xof(rng: &mut Rng, inst: &mut Inst) {
    if !inst.is_prio3() {
        return;
    }
    inst.xof = match rng.below(8) {
        0 => "hmac".to_string(),
        1 => "fixedkey".to_string(),
        _ => String::new(),
    };
}

pub fn gen_prio3_inst(rng: &mut Rng, small: bool, allow_mt: bool) -> Inst {
    let classes: &[(&str, u32)] = &[("count", 2), ("sum", 3), ("avg", 2), ("sumvec", 4), ("sumvec64", 3), ("hist", 4), ("multihot", 3), ("l1", 3)];
    let w: Vec<u32> = classes.iter().map(|c| c.1).collect();
    let class = classes[rng.weighted(&w)].0;
    let mut n = pick_n(rng);
    if !small && rng.chance(1, 60) {
        n = *rng.pick(&[64u8, 254]);
    }
    let mut proofs = 1u8;
    let lenmax = if small { 6 } else if rng.chance(1, 40) { 200 } else { 24 };
    let mut inst = Inst { class: class.to_string(), n, proofs: 1, max: N(1), len: 1, chunk: 1, weight: 1, mt: false, named: rng.chance(1, 2), xof: String::new() };
    match class {
        "count" => {}
        "sum" => inst.max = N(pick_bound(rng, P64, 63)),
        // Average's result type is u64-based: keep batch sums below 2^64 (documented limit)
        "avg" => inst.max = N(pick_bound(rng, P64, if small { 8 } else { 58 }).min(1 << 58)),
        "sumvec" | "sumvec64" | "l1" => {
            let p = if class == "sumvec64" { P64 } else { crate::model::P128 };
            let bits_cap = if small { 3 } else { 9 };
            inst.max = N(if rng.chance(1, 30) && !small { pick_bound(rng, p, if class == "sumvec64" { 63 } else { 126 }) } else { pick_bound(rng, 1 << 20, bits_cap) });
            inst.len = 1 + rng.usize_below(lenmax) as u32;
            let bits = bits_of(inst.max.0);
            if bits * (inst.len as usize) > 600 {
                inst.len = (600 / bits).max(1) as u32;
            }
            let ilen = bits * (inst.len as usize + if class == "l1" { 1 } else { 0 });
            inst.chunk = pick_chunk(rng, ilen);
            if class == "sumvec64" {
                proofs = *rng.pick(&[2u8, 2, 3, 3, 5]);
            }
        }
        "hist" => {
            inst.len = 1 + rng.usize_below(lenmax) as u32;
            inst.chunk = pick_chunk(rng, inst.len as usize);
        }
        "multihot" => {
            inst.len = 1 + rng.usize_below(lenmax) as u32;
            inst.weight = match rng.below(4) {
                0 => 1,
                1 => inst.len,
                2 => inst.len + 1 + rng.below(3) as u32,
                _ => 1 + rng.below(inst.len as u64) as u32,
            };
            let ilen = inst.len as usize + bits_of(inst.weight as u128);
            inst.chunk = pick_chunk(rng, ilen);
        }
        _ => {}
    }
    if class != "sumvec64" && rng.chance(1, 6) {
        proofs = *rng.pick(&[2u8, 3, 5]);
        if !small && rng.chance(1, 20) {
            proofs = 255;
        }
    }
    // keep extreme-but-valid corners affordable (one report of n = 254 x 255 proofs costs ~45 s):
    // many aggregators OR many proofs, never both, and short vectors with them
    if proofs == 255 {
        inst.n = inst.n.min(3);
    }
    if inst.n >= 64 && proofs > 2 {
        proofs = 2;
    }
    if (proofs == 255 || inst.n >= 64) && inst.chunk > 16 {
        inst.chunk = 1 + inst.chunk % 16;
    }
    inst.proofs = proofs;
    if proofs > 1 {
        inst.named = false;
    }
    if allow_mt && matches!(class, "sumvec" | "hist" | "multihot") && rng.chance(1, 4) {
        inst.mt = true;
    }
    inst
}
