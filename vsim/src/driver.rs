//! Orchestrator / worker processes, minimiser, replay files, evidence.

use crate::core::*;
use crate::rng::run_seed;
use crate::util::Counters;
use serde::{Deserialize, Serialize};
use serde_json::{json, Value};
use std::collections::BTreeSet;
use std::io::{BufRead, BufReader, Write};
use std::process::{Command, Stdio};
use std::sync::mpsc;
use std::time::{Duration, Instant};

/// Root for evidence/, replays/, known_findings.json (default /verif; `VERIF_DIR` overrides it for
/// background runs from a snapshot).
pub fn verif_dir() -> String {
    std::env::var("VERIF_DIR").unwrap_or_else(|_| "/verif".to_string())
}
fn run_wall_limit_s() -> u64 {
    let base = WALL_LIMIT.load(std::sync::atomic::Ordering::Relaxed);
    std::env::var("VERIF_RUN_LIMIT_S").ok().and_then(|s| s.parse().ok()).unwrap_or(base)
}
static WALL_LIMIT: std::sync::atomic::AtomicU64 = std::sync::atomic::AtomicU64::new(600);
pub fn set_wall_limit(s: u64) {
    WALL_LIMIT.store(s, std::sync::atomic::Ordering::Relaxed);
}

#[derive(Serialize, Deserialize, Clone, Debug)]
pub struct FoundViolation {
    pub run: u64,
    pub violation: Violation,
    pub plan: Value,
}

#[derive(Serialize, Deserialize, Default, Debug)]
pub struct WorkerResult {
    pub runs: u64,
    pub events: u64,
    pub digest: u64,
    pub counters: Counters,
    pub sigs: Vec<u64>,
    pub violations: Vec<FoundViolation>,
    pub harness_errors: Vec<String>,
}

pub fn plan_for(check: &dyn Check, fixed: &[Value], seed: u64, run: u64, tier: Tier) -> Value {
    if (run as usize) < fixed.len() {
        fixed[run as usize].clone()
    } else {
        check.gen(run_seed(seed, check.id(), run - fixed.len() as u64), run - fixed.len() as u64, tier)
    }
}

fn mix(run: u64, trace: u64) -> u64 {
    let mut h = crate::util::H64::new();
    h.u64(run).u64(trace);
    h.finish()
}

/// Worker: executes runs `i ≡ w (mod nw)`, `lo <= i < hi`, reporting progress on stdout.
pub fn worker_main(check: &dyn Check, tier: Tier, seed: u64, w: u64, nw: u64, lo: u64, hi: u64, dump: bool) -> i32 {
    install_panic_hook();
    let fixed = check.fixed_plans(tier);
    let nfixed = fixed.len() as u64;
    let mut res = WorkerResult::default();
    let mut sigs: BTreeSet<u64> = BTreeSet::new();
    let out = std::io::stdout();
    let known = KnownFindings::load(&format!("{}/known_findings.json", verif_dir())).unwrap_or_default();
    let mut i = lo + ((w + nw - (lo % nw)) % nw);
    while i < hi {
        {
            let mut o = out.lock();
            let _ = writeln!(o, "S {i}");
        }
        let r = if i < nfixed {
            let plan = fixed[i as usize].clone();
            check.exec(&plan, &mut res.counters).map(|o| {
                let keep = o.violation.is_some();
                (o, if keep { Some(plan) } else { None })
            })
        } else {
            let run = i - nfixed;
            check.gen_exec(run_seed(seed, check.id(), run), run, tier, &mut res.counters)
        };
        match r {
            Ok((o, plan)) => {
                res.runs += 1;
                res.events += o.events;
                res.digest = res.digest.wrapping_add(mix(i, o.trace));
                if dump {
                    let mut oo = out.lock();
                    let _ = writeln!(oo, "T {i} {:016x}", o.trace);
                }
                if o.sig != 0 {
                    sigs.insert(o.sig);
                }
                if let Some(v) = o.violation {
                    let is_known = known.matches(check.id(), &v).is_some();
                    if is_known {
                        res.counters.inc("known_finding_hits");
                    } else {
                        res.violations.push(FoundViolation { run: i, violation: v, plan: plan.unwrap_or(Value::Null) });
                        if res.violations.len() >= 3 {
                            break;
                        }
                    }
                }
            }
            Err(e) => {
                res.harness_errors.push(format!("run {i}: {e}"));
                if res.harness_errors.len() >= 3 {
                    break;
                }
            }
        }
        i += nw;
    }
    res.sigs = sigs.into_iter().collect();
    let mut o = out.lock();
    let _ = writeln!(o, "R {}", serde_json::to_string(&res).unwrap());
    0
}

enum Msg {
    Start(usize, u64),
    Result(usize, Box<WorkerResult>),
    Eof(usize),
}

pub struct BatchResult {
    pub total: WorkerResult,
    pub aborts: Vec<(u64, String)>,
    pub sigs: BTreeSet<u64>,
}

fn spawn_worker(check_id: &str, tier: Tier, seed: u64, w: u64, nw: u64, lo: u64, hi: u64, dump: bool) -> std::process::Child {
    let exe = std::env::current_exe().expect("current_exe");
    let mut c = Command::new(exe);
    c.arg("worker").arg(check_id).arg(tier.name()).arg(seed.to_string()).arg(w.to_string()).arg(nw.to_string()).arg(lo.to_string()).arg(hi.to_string());
    if dump {
        c.arg("--dump");
    }
    c.stdin(Stdio::null()).stdout(Stdio::piped()).stderr(Stdio::inherit());
    c.spawn().expect("spawn worker")
}

/// Run a batch over `nw` worker processes. A worker that dies or stalls is restarted after the
/// offending run, which is recorded as an abort/hang.
pub fn run_batch(check: &dyn Check, tier: Tier, seed: u64, nw: u64, total_runs: u64, dump_to: Option<&mut Vec<(u64, u64)>>) -> BatchResult {
    let (tx, rx) = mpsc::channel::<Msg>();
    let mut children: Vec<Option<std::process::Child>> = Vec::new();
    let mut last_start: Vec<(u64, Instant)> = Vec::new();
    let mut finished = vec![false; nw as usize];
    let mut got_result = vec![false; nw as usize];
    let mut hung = vec![false; nw as usize];
    let dump = dump_to.is_some();
    let mut traces: Vec<(u64, u64)> = Vec::new();
    let (ttx, trx) = mpsc::channel::<(u64, u64)>();

    let start_reader = |w: usize, child: &mut std::process::Child, tx: mpsc::Sender<Msg>, ttx: mpsc::Sender<(u64, u64)>| {
        let stdout = child.stdout.take().unwrap();
        std::thread::spawn(move || {
            let rd = BufReader::new(stdout);
            for line in rd.lines() {
                let Ok(line) = line else { break };
                if let Some(rest) = line.strip_prefix("S ") {
                    if let Ok(i) = rest.trim().parse::<u64>() {
                        let _ = tx.send(Msg::Start(w, i));
                    }
                } else if let Some(rest) = line.strip_prefix("T ") {
                    let mut it = rest.split_whitespace();
                    if let (Some(a), Some(b)) = (it.next(), it.next()) {
                        if let (Ok(i), Ok(t)) = (a.parse::<u64>(), u64::from_str_radix(b, 16)) {
                            let _ = ttx.send((i, t));
                        }
                    }
                } else if let Some(rest) = line.strip_prefix("R ") {
                    if let Ok(r) = serde_json::from_str::<WorkerResult>(rest) {
                        let _ = tx.send(Msg::Result(w, Box::new(r)));
                    }
                }
            }
            let _ = tx.send(Msg::Eof(w));
        });
    };

    for w in 0..nw {
        let mut ch = spawn_worker(check.id(), tier, seed, w, nw, 0, total_runs, dump);
        start_reader(w as usize, &mut ch, tx.clone(), ttx.clone());
        children.push(Some(ch));
        last_start.push((u64::MAX, Instant::now()));
    }

    let mut total = WorkerResult::default();
    let mut sigs = BTreeSet::new();
    let mut aborts: Vec<(u64, String)> = Vec::new();
    let mut live = nw as usize;
    while live > 0 {
        match rx.recv_timeout(Duration::from_millis(500)) {
            Ok(Msg::Start(w, i)) => last_start[w] = (i, Instant::now()),
            Ok(Msg::Result(w, r)) => {
                got_result[w] = true;
                total.runs += r.runs;
                total.events += r.events;
                total.digest = total.digest.wrapping_add(r.digest);
                total.counters.merge(&r.counters);
                sigs.extend(r.sigs.iter().copied());
                total.violations.extend(r.violations);
                total.harness_errors.extend(r.harness_errors);
            }
            Ok(Msg::Eof(w)) => {
                if let Some(mut ch) = children[w].take() {
                    let _ = ch.wait();
                }
                if !got_result[w] && !finished[w] {
                    // died without a result: the last started run aborted the process
                    let (i, _) = last_start[w];
                    if i != u64::MAX {
                        aborts.push((i, if hung[w] { "hang".into() } else { "abort".into() }));
                        hung[w] = false;
                        // resume after the offending run
                        let next = i + 1;
                        if next < total_runs && aborts.len() < 8 {
                            let mut ch = spawn_worker(check.id(), tier, seed, w as u64, nw, next, total_runs, dump);
                            start_reader(w, &mut ch, tx.clone(), ttx.clone());
                            children[w] = Some(ch);
                            last_start[w] = (u64::MAX, Instant::now());
                            continue;
                        }
                    } else {
                        total.harness_errors.push(format!("worker {w} died before starting any run"));
                    }
                }
                finished[w] = true;
                live -= 1;
            }
            Err(mpsc::RecvTimeoutError::Timeout) => {
                for w in 0..nw as usize {
                    if finished[w] || got_result[w] || hung[w] {
                        continue;
                    }
                    let (i, t) = last_start[w];
                    if i != u64::MAX && t.elapsed() > Duration::from_secs(run_wall_limit_s()) {
                        // kill it; the reader's Eof is then handled like an abort, labelled "hang"
                        hung[w] = true;
                        if let Some(ch) = children[w].as_mut() {
                            let _ = ch.kill();
                        }
                    }
                }
            }
            Err(mpsc::RecvTimeoutError::Disconnected) => break,
        }
    }
    drop(ttx);
    while let Ok(t) = trx.try_recv() {
        traces.push(t);
    }
    if let Some(d) = dump_to {
        traces.sort();
        *d = traces;
    }
    BatchResult { total, aborts, sigs }
}

/// Execute one plan in a fresh process; returns the violation if any (abort → oracle "abort").
pub fn exec_in_subprocess(check_id: &str, plan: &Value) -> Result<Option<Violation>, String> {
    let exe = std::env::current_exe().map_err(|e| e.to_string())?;
    let mut ch = Command::new(exe)
        .arg("exec-plan")
        .arg(check_id)
        .stdin(Stdio::piped())
        .stdout(Stdio::piped())
        .stderr(Stdio::null())
        .spawn()
        .map_err(|e| e.to_string())?;
    // feed the plan and drain the output on separate threads: neither side may block on a full pipe
    let mut si = ch.stdin.take().unwrap();
    let plan_bytes = serde_json::to_string(plan).unwrap().into_bytes();
    let writer = std::thread::spawn(move || {
        let _ = si.write_all(&plan_bytes);
    });
    let mut so = ch.stdout.take().unwrap();
    let reader = std::thread::spawn(move || {
        use std::io::Read;
        let mut buf = Vec::new();
        let _ = so.read_to_end(&mut buf);
        buf
    });
    let t0 = Instant::now();
    loop {
        match ch.try_wait() {
            Ok(Some(_)) => break,
            Ok(None) => {
                if t0.elapsed() > Duration::from_secs(run_wall_limit_s()) {
                    let _ = ch.kill();
                    let _ = ch.wait();
                    return Ok(Some(Violation::new("hang", "hang", format!("plan did not finish within {} s", run_wall_limit_s()))));
                }
                std::thread::sleep(Duration::from_millis(2));
            }
            Err(e) => return Err(e.to_string()),
        }
    }
    let status = ch.wait().map_err(|e| e.to_string())?;
    let _ = writer.join();
    let stdout = reader.join().unwrap_or_default();
    let s = String::from_utf8_lossy(&stdout);
    for line in s.lines() {
        if let Some(rest) = line.strip_prefix("X ") {
            let v: Value = serde_json::from_str(rest).map_err(|e| e.to_string())?;
            if let Some(e) = v.get("harness_error") {
                return Err(e.as_str().unwrap_or("?").to_string());
            }
            if v.get("violation").map(|x| x.is_null()).unwrap_or(true) {
                return Ok(None);
            }
            let viol: Violation = serde_json::from_value(v["violation"].clone()).map_err(|e| e.to_string())?;
            return Ok(Some(viol));
        }
    }
    if !status.success() {
        return Ok(Some(Violation::new("abort", "abort", format!("process died executing the plan: {status:?}"))));
    }
    Err("exec-plan produced no result line".into())
}

pub fn exec_plan_main(check: &dyn Check) -> i32 {
    install_panic_hook();
    let mut s = String::new();
    use std::io::Read;
    std::io::stdin().read_to_string(&mut s).unwrap();
    let plan: Value = match serde_json::from_str(&s) {
        Ok(p) => p,
        Err(e) => {
            println!("X {}", json!({"harness_error": format!("bad plan json: {e}")}));
            return 2;
        }
    };
    let mut c = Counters::default();
    // history wrapper: plans executed earlier by the same process (their outcomes are ignored); used when a
    // violation depends on state the library keeps across operations (statics, thread-locals)
    let plan = if let Some(h) = plan.get("__history").and_then(|h| h.as_array()) {
        for hp in h {
            let mut scratch = Counters::default();
            let _ = check.exec(hp, &mut scratch);
        }
        plan["__plan"].clone()
    } else {
        plan
    };
    match check.exec(&plan, &mut c) {
        Ok(o) => {
            println!("X {}", json!({"violation": o.violation, "trace": format!("{:016x}", o.trace)}));
            0
        }
        Err(e) => {
            println!("X {}", json!({"harness_error": e}));
            2
        }
    }
}

/// Delta-debugging style minimisation: greedily accept any candidate that still fails with the
/// same oracle id and signature.
pub fn minimise(check: &dyn Check, plan: &Value, v: &Violation, max_execs: usize) -> (Value, usize) {
    let mut cur = plan.clone();
    let mut execs = 0usize;
    let mut progress = true;
    while progress && execs < max_execs {
        progress = false;
        for cand in check.shrink(&cur) {
            if execs >= max_execs {
                break;
            }
            if cand == cur {
                continue;
            }
            execs += 1;
            match exec_in_subprocess(check.id(), &cand) {
                Ok(Some(v2)) if v2.oracle == v.oracle && v2.signature == v.signature => {
                    cur = cand;
                    progress = true;
                    break;
                }
                _ => {}
            }
        }
    }
    (cur, execs)
}

fn abbreviate(v: &Value, max: usize) -> Value {
    let s = serde_json::to_string(v).unwrap();
    if s.len() <= max {
        v.clone()
    } else {
        let mut cut = max;
        while !s.is_char_boundary(cut) {
            cut -= 1;
        }
        Value::String(format!("{}… ({} bytes of plan JSON)", &s[..cut], s.len()))
    }
}

pub fn write_replay(check_id: &str, seed: u64, run: u64, tier: Tier, plan: &Value, v: &Violation, minimised: bool, original: Option<&Value>) -> String {
    let dir = format!("{}/replays", verif_dir());
    let _ = std::fs::create_dir_all(&dir);
    let path = format!("{dir}/{check_id}-{seed}-{run}.json");
    let doc = json!({
        "property": check_id, "verif_seed": seed, "run": run, "tier": tier.name(),
        "minimised": minimised, "violation": v, "plan": plan, "original_plan": original,
    });
    std::fs::write(&path, serde_json::to_string_pretty(&doc).unwrap()).expect("write replay");
    path
}

/// `./check <ID> quick|thorough`
pub fn check_main(check: &dyn Check, tier: Tier, seed: u64, nw: u64) -> i32 {
    let t0 = Instant::now();
    set_wall_limit(check.wall_limit_s());
    println!("VERIF_SEED={seed} property={} tier={} workers={nw}", check.id(), tier.name());
    let known = match KnownFindings::load(&format!("{}/known_findings.json", verif_dir())) {
        Ok(k) => k,
        Err(e) => {
            eprintln!("HARNESS-ERROR: {e}");
            return 2;
        }
    };
    // 1. replay the open known findings of this property
    let mut exit = 0;
    for k in known.open.iter().filter(|k| k.property == check.id()) {
        let path = format!("{}/{}", verif_dir(), k.replay);
        let doc: Value = match std::fs::read_to_string(&path).map_err(|e| e.to_string()).and_then(|s| serde_json::from_str(&s).map_err(|e| e.to_string())) {
            Ok(d) => d,
            Err(e) => {
                eprintln!("HARNESS-ERROR: known finding replay {path}: {e}");
                return 2;
            }
        };
        match exec_in_subprocess(check.id(), &doc["plan"]) {
            Ok(Some(v)) if v.oracle == k.oracle && v.signature == k.signature => {
                println!("KNOWN-FINDING: property={} {}", check.id(), k.what);
            }
            Ok(Some(v)) => {
                println!("NOTE: known-finding plan {} now fails differently: {} / {}", k.replay, v.oracle, v.signature);
                let p = write_replay(check.id(), seed, 0, tier, &doc["plan"], &v, false, None);
                println!("VIOLATION property={} replay={p}", check.id());
                exit = 1;
            }
            Ok(None) => println!("NOTE: listed finding no longer reproduces (not an error): {}", k.what),
            Err(e) => {
                eprintln!("HARNESS-ERROR: {e}");
                return 2;
            }
        }
    }
    // 2. the seeded search
    let fixed = check.fixed_plans(tier);
    let total_runs = fixed.len() as u64 + check.runs(tier);
    let batch = run_batch(check, tier, seed, nw, total_runs, None);
    let mut total = batch.total;
    if !total.harness_errors.is_empty() {
        for e in &total.harness_errors {
            eprintln!("HARNESS-ERROR: {e}");
        }
        return 2;
    }
    // aborts / hangs: confirm in a fresh process, then report
    let mut found: Vec<FoundViolation> = std::mem::take(&mut total.violations);
    for (run, kind) in &batch.aborts {
        let plan = plan_for(check, &fixed, seed, *run, tier);
        match exec_in_subprocess(check.id(), &plan) {
            Ok(Some(v)) => found.push(FoundViolation { run: *run, violation: v, plan }),
            Ok(None) => {
                eprintln!("HARNESS-ERROR: run {run} ended in {kind} inside the batch but passes alone (resource exhaustion?)");
                return 2;
            }
            Err(e) => {
                eprintln!("HARNESS-ERROR: {e}");
                return 2;
            }
        }
    }
    found.sort_by_key(|f| f.run);
    let mut reported: Vec<(String, String)> = Vec::new();
    let mut nviol = 0;
    for f in &found {
        if known.matches(check.id(), &f.violation).is_some() {
            continue;
        }
        let key = (f.violation.oracle.clone(), f.violation.signature.clone());
        if reported.contains(&key) {
            continue;
        }
        reported.push(key);
        nviol += 1;
        let budget = if nviol == 1 { 300 } else { 60 };
        let same = |r: &Result<Option<Violation>, String>| matches!(r, Ok(Some(v2)) if v2.oracle == f.violation.oracle && v2.signature == f.violation.signature);
        // a violation seen inside a batch must reproduce from its plan alone in a fresh process. If it does not,
        // it depends on what the same worker process executed before it: re-run it behind that history, shrink the
        // history, and report the pair as the replay file. If even that does not reproduce, the run is not a
        // function of its plan: a harness error, never a violation.
        if f.violation.oracle != "hang" && f.violation.oracle != "abort" && !same(&exec_in_subprocess(check.id(), &f.plan)) {
            let all: Vec<u64> = (0..f.run).filter(|r| r % nw == f.run % nw).collect();
            let mut hist: Option<Vec<Value>> = None;
            for take in [16usize, 256, 4096, usize::MAX] {
                let from = all.len().saturating_sub(take);
                let h: Vec<Value> = all[from..].iter().map(|r| plan_for(check, &fixed, seed, *r, tier)).collect();
                if same(&exec_in_subprocess(check.id(), &json!({"__history": h, "__plan": f.plan}))) {
                    hist = Some(h);
                    break;
                }
                if from == 0 {
                    break;
                }
            }
            let Some(mut h) = hist else {
                eprintln!("HARNESS-ERROR: run {} reported {} inside the batch but neither its plan alone nor its plan after the worker's earlier plans reproduces it: the run is not a function of its plan", f.run, f.violation.oracle);
                return 2;
            };
            // shrink the history: drop chunks while the violation persists
            let mut execs = 0;
            let mut chunk = h.len().div_ceil(2).max(1);
            while !h.is_empty() && execs < 200 {
                let mut i = 0;
                let mut removed = false;
                while i < h.len() && execs < 200 {
                    let mut cand = h.clone();
                    cand.drain(i..(i + chunk).min(h.len()));
                    execs += 1;
                    if same(&exec_in_subprocess(check.id(), &json!({"__history": cand, "__plan": f.plan}))) {
                        h = cand;
                        removed = true;
                    } else {
                        i += chunk;
                    }
                }
                if chunk == 1 {
                    if !removed {
                        break;
                    }
                } else {
                    chunk = chunk.div_ceil(2);
                }
            }
            let wrapped = json!({"__history": h, "__plan": f.plan});
            let path = write_replay(check.id(), seed, f.run, tier, &wrapped, &f.violation, true, None);
            println!("violation: run={} oracle={} detail={} [does not reproduce from its own plan in a fresh process, only after {} earlier plan(s) of the same process: the library keeps state across operations] (minimiser executions: {execs})", f.run, f.violation.oracle, f.violation.detail, h.len());
            println!("VIOLATION property={} replay={path}", check.id());
            exit = 1;
            continue;
        }
        let (min_plan, execs) = if f.violation.oracle == "hang" { (f.plan.clone(), 0) } else { minimise(check, &f.plan, &f.violation, budget) };
        // confirm the minimised plan in a fresh process
        let (final_plan, minimised) = match exec_in_subprocess(check.id(), &min_plan) {
            Ok(Some(v2)) if v2.oracle == f.violation.oracle && v2.signature == f.violation.signature => (min_plan, true),
            _ => (f.plan.clone(), false),
        };
        let path = write_replay(check.id(), seed, f.run, tier, &final_plan, &f.violation, minimised, if minimised { Some(&f.plan) } else { None });
        println!("violation: run={} oracle={} detail={} (minimiser executions: {execs})", f.run, f.violation.oracle, f.violation.detail);
        println!("VIOLATION property={} replay={path}", check.id());
        exit = 1;
    }
    // 3. evidence
    let wall = t0.elapsed().as_secs_f64();
    let samples: Vec<Value> = (0..3u64)
        .map(|k| abbreviate(&plan_for(check, &fixed, seed, fixed.len() as u64 + k, tier), 1800))
        .collect();
    let mut faults = serde_json::Map::new();
    let mut probes = serde_json::Map::new();
    let mut other = serde_json::Map::new();
    for (k, v) in &total.counters.0 {
        if let Some(r) = k.strip_prefix("fault.") {
            faults.insert(r.to_string(), json!(v));
        } else if let Some(r) = k.strip_prefix("probe.") {
            probes.insert(r.to_string(), json!(v));
        } else {
            other.insert(k.clone(), json!(v));
        }
    }
    let ev = json!({
        "property_id": check.id(),
        "tier": tier.name(),
        "seed": seed,
        "level": check.level(),
        "coverage": {
            "evaluations": total.runs,
            "distinct_nontrivial": batch.sigs.len(),
            "rule": check.rule(),
            "samples": samples,
            "simulated_events": total.events,
            "simulated_time_note": "simulated time = number of simulator events executed (the library reads no clock)",
            "runs_per_hour": if wall > 0.0 { (total.runs as f64 / wall * 3600.0) as u64 } else { 0 },
            "fixed_plans": fixed.len(),
            "faults_fired": faults,
            "probes_hit": probes,
            "counters": other,
            "batch_digest": format!("{:016x}", total.digest),
            "components": check.components(),
            "fault_kinds_inapplicable_to_this_codebase": check.inapplicable_faults(),
            "aborts_or_hangs": batch.aborts.len(),
            "workers": nw,
        },
        "assumptions": check.assumptions(),
        "wall_s": wall,
        "violations": nviol,
    });
    let _ = std::fs::create_dir_all(format!("{}/evidence", verif_dir()));
    let evpath = format!("{}/evidence/{}.json", verif_dir(), check.id());
    if let Err(e) = std::fs::write(&evpath, serde_json::to_string_pretty(&ev).unwrap()) {
        eprintln!("HARNESS-ERROR: cannot write {evpath}: {e}");
        return 2;
    }
    println!(
        "property={} runs={} distinct={} events={} wall={:.1}s violations={} digest={:016x}",
        check.id(), total.runs, batch.sigs.len(), total.events, wall, nviol, total.digest
    );
    exit
}

/// `./check <ID> --replay <file>`
pub fn replay_main(check: &dyn Check, path: &str) -> i32 {
    set_wall_limit(check.wall_limit_s());
    let doc: Value = match std::fs::read_to_string(path).map_err(|e| e.to_string()).and_then(|s| serde_json::from_str(&s).map_err(|e| e.to_string())) {
        Ok(d) => d,
        Err(e) => {
            eprintln!("HARNESS-ERROR: {path}: {e}");
            return 2;
        }
    };
    let plan = if doc.get("plan").is_some() { &doc["plan"] } else { &doc };
    match exec_in_subprocess(check.id(), plan) {
        Ok(Some(v)) => {
            println!("replayed: oracle={} signature={} detail={}", v.oracle, v.signature, v.detail);
            let known = KnownFindings::load(&format!("{}/known_findings.json", verif_dir())).unwrap_or_default();
            if let Some(k) = known.matches(check.id(), &v) {
                println!("KNOWN-FINDING: property={} {}", check.id(), k.what);
                return 0;
            }
            println!("VIOLATION property={} replay={path}", check.id());
            1
        }
        Ok(None) => {
            println!("replay passed: no violation");
            0
        }
        Err(e) => {
            eprintln!("HARNESS-ERROR: {e}");
            2
        }
    }
}

/// Determinism self-check: same batch twice with different worker counts, per-run traces compared.
pub fn selftest(check: &dyn Check, seed: u64, runs: u64) -> i32 {
    set_wall_limit(check.wall_limit_s());
    let mut a = Vec::new();
    let mut b = Vec::new();
    let fixed = check.fixed_plans(Tier::Quick).len() as u64;
    let n = fixed + runs;
    let ra = run_batch(check, Tier::Quick, seed, 16, n, Some(&mut a));
    let rb = run_batch(check, Tier::Quick, seed, 3, n, Some(&mut b));
    if !ra.total.harness_errors.is_empty() || !rb.total.harness_errors.is_empty() {
        eprintln!("HARNESS-ERROR: {:?} {:?}", ra.total.harness_errors, rb.total.harness_errors);
        return 2;
    }
    if !ra.total.violations.is_empty() || !rb.total.violations.is_empty() {
        // a worker stops after a few violations, so the trace lists would differ for that reason alone
        eprintln!("HARNESS-ERROR: selftest of {} met violations (run the check itself): {:?}", check.id(), ra.total.violations.iter().chain(rb.total.violations.iter()).map(|v| format!("run {} {}", v.run, v.violation.oracle)).take(4).collect::<Vec<_>>());
        return 2;
    }
    if a != b {
        let mut n = 0;
        for (x, y) in a.iter().zip(b.iter()) {
            if x != y {
                eprintln!("NONDETERMINISM property={} run={} trace {:016x} vs {:016x}", check.id(), x.0, x.1, y.1);
                n += 1;
                if n > 5 {
                    break;
                }
            }
        }
        eprintln!("HARNESS-ERROR: determinism self-check failed for {} ({} vs {} traces)", check.id(), a.len(), b.len());
        return 2;
    }
    println!("selftest {}: {} runs, traces identical at 16 and 3 workers, digest {:016x}", check.id(), a.len(), ra.total.digest);
    0
}
