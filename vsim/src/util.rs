use serde::{Deserialize, Deserializer, Serialize, Serializer};
use std::collections::BTreeMap;

pub fn hex(b: &[u8]) -> String {
    let mut s = String::with_capacity(b.len() * 2);
    for x in b {
        s.push_str(&format!("{:02x}", x));
    }
    s
}
pub fn unhex(s: &str) -> Result<Vec<u8>, String> {
    if s.len() % 2 != 0 {
        return Err("odd hex".into());
    }
    (0..s.len() / 2)
        .map(|i| u8::from_str_radix(&s[2 * i..2 * i + 2], 16).map_err(|e| e.to_string()))
        .collect()
}

/// Byte string that serialises as hex.
#[derive(Clone, PartialEq, Eq, Hash, Default)]
pub struct Hx(pub Vec<u8>);
impl std::fmt::Debug for Hx {
    fn fmt(&self, f: &mut std::fmt::Formatter<'_>) -> std::fmt::Result {
        write!(f, "Hx({})", hex(&self.0))
    }
}
impl Serialize for Hx {
    fn serialize<S: Serializer>(&self, s: S) -> Result<S::Ok, S::Error> {
        s.serialize_str(&hex(&self.0))
    }
}
impl<'de> Deserialize<'de> for Hx {
    fn deserialize<D: Deserializer<'de>>(d: D) -> Result<Self, D::Error> {
        let s = String::deserialize(d)?;
        unhex(&s).map(Hx).map_err(serde::de::Error::custom)
    }
}

/// u128 that serialises as a decimal string (serde_json numbers stop at u64).
#[derive(Clone, Copy, PartialEq, Eq, Hash, PartialOrd, Ord, Default)]
pub struct N(pub u128);
impl std::fmt::Debug for N {
    fn fmt(&self, f: &mut std::fmt::Formatter<'_>) -> std::fmt::Result {
        write!(f, "{}", self.0)
    }
}
impl Serialize for N {
    fn serialize<S: Serializer>(&self, s: S) -> Result<S::Ok, S::Error> {
        s.serialize_str(&self.0.to_string())
    }
}
impl<'de> Deserialize<'de> for N {
    fn deserialize<D: Deserializer<'de>>(d: D) -> Result<Self, D::Error> {
        let s = String::deserialize(d)?;
        s.parse::<u128>().map(N).map_err(serde::de::Error::custom)
    }
}

/// 64-bit FNV-1a style streaming hash with a final avalanche (not cryptographic; used for
/// trace digests and distinct-case signatures only).
#[derive(Clone)]
pub struct H64(pub u64);
impl Default for H64 {
    fn default() -> Self {
        H64(0xcbf2_9ce4_8422_2325)
    }
}
impl H64 {
    pub fn new() -> Self {
        Self::default()
    }
    pub fn bytes(&mut self, b: &[u8]) -> &mut Self {
        for x in b {
            self.0 ^= *x as u64;
            self.0 = self.0.wrapping_mul(0x0000_0100_0000_01B3);
        }
        self.u64(b.len() as u64)
    }
    pub fn u64(&mut self, v: u64) -> &mut Self {
        for x in v.to_le_bytes() {
            self.0 ^= x as u64;
            self.0 = self.0.wrapping_mul(0x0000_0100_0000_01B3);
        }
        self
    }
    pub fn str(&mut self, s: &str) -> &mut Self {
        self.bytes(s.as_bytes())
    }
    pub fn finish(&self) -> u64 {
        let mut z = self.0;
        z = (z ^ (z >> 30)).wrapping_mul(0xBF58_476D_1CE4_E5B9);
        z = (z ^ (z >> 27)).wrapping_mul(0x94D0_49BB_1331_11EB);
        z ^ (z >> 31)
    }
}

/// Counters keyed by name; merged by addition.
#[derive(Clone, Debug, Default, Serialize, Deserialize)]
pub struct Counters(pub BTreeMap<String, u64>);
impl Counters {
    pub fn inc(&mut self, k: &str) {
        self.add(k, 1);
    }
    pub fn add(&mut self, k: &str, n: u64) {
        if let Some(v) = self.0.get_mut(k) {
            *v += n;
        } else {
            self.0.insert(k.to_string(), n);
        }
    }
    pub fn get(&self, k: &str) -> u64 {
        self.0.get(k).copied().unwrap_or(0)
    }
    pub fn merge(&mut self, o: &Counters) {
        for (k, v) in &o.0 {
            self.add(k, *v);
        }
    }
}
