//! C17: twin runs — the same sharding plan (ctx, nonce, randomness) with two measurements;
//! everything a helper receives must be byte-identical, the leader's measurement share must differ
//! by exactly the difference of the encodings.

use crate::core::*;
use crate::inst::{dispatch, gen_prio3_inst, Adapter, BuildErr, Inst, Kind, ShardErr, SimVdaf, Visitor};
use crate::model;
use crate::rng::Rng;
use crate::util::{Counters, Hx, N};
use serde::{Deserialize, Serialize};
use serde_json::{json, Value};

#[derive(Clone, Debug, Serialize, Deserialize, PartialEq)]
pub struct PlanTwin {
    pub inst: Inst,
    pub ctx: Hx,
    pub nonce: Hx,
    pub rand: Hx,
    pub m1: Vec<N>,
    pub m2: Vec<N>,
}

pub struct CheckTwin;

pub fn checks() -> Vec<Box<dyn Check>> {
    vec![Box::new(CheckTwin)]
}

const ACCEPT: &[&str] = &["C17.", "panic"];

fn gen(seed: u64) -> PlanTwin {
    let mut rng = Rng::new(seed);
    let rng = &mut rng;
    let inst = if rng.chance(1, 4) {
        crate::inst_poplar::gen_poplar_inst(rng, false)
    } else {
        let small = rng.chance(1, 2);
        let mut i = gen_prio3_inst(rng, small, false);
        if i.n > 8 {
            i.n = 2 + rng.below(7) as u8;
        }
        // a single aggregator is an admissible instance: no helper, the leader's mask is zero
        if rng.chance(1, 12) {
            i.n = 1;
        }
        crate::inst::pick_xof(rng, &mut i);
        i
    };
    let m1 = model::gen_meas(&inst, rng);
    let mut m2 = model::gen_meas(&inst, rng);
    if m2 == m1 {
        m2 = model::gen_meas(&inst, rng);
    }
    let cl = rng.usize_below(20);
    let rl = model::rand_len(&inst);
    // sharding randomness: mostly random, sometimes degenerate (a stuck or low-entropy generator)
    let rand = match rng.below(8) {
        0 => vec![0u8; rl],
        1 => vec![0xffu8; rl],
        2 => {
            let b = rng.bytes(16);
            b.iter().cycle().take(rl).cloned().collect()
        }
        3 => {
            let b = rng.bytes(32);
            b.iter().cycle().take(rl).cloned().collect()
        }
        _ => rng.bytes(rl),
    };
    PlanTwin { ctx: Hx(rng.bytes(cl)), nonce: Hx(rng.bytes(16)), rand: Hx(rand), m1, m2, inst }
}

struct TwinVis<'a> {
    plan: &'a PlanTwin,
    counters: &'a mut Counters,
}

impl<'a> Visitor for TwinVis<'a> {
    type Out = Result<RunOut, String>;
    fn visit<V, A, const VK: usize>(self, vdaf: &V, ad: &A) -> Self::Out
    where
        V: SimVdaf<VK>,
        A: Adapter<V>,
    {
        let p = self.plan;
        let mut ctx = Ctx::new(self.counters, ACCEPT);
        ctx.sig.str("C17").str(&p.inst.label()).u64(p.inst.n as u64).u64(p.inst.proofs as u64).u64(p.inst.len as u64).u64(p.inst.chunk as u64).u64((p.m1 == p.m2) as u64);
        ctx.counters.inc(&format!("class.{}", p.inst.label()));
        let mut nonce = [0u8; 16];
        nonce.copy_from_slice(&p.nonce.0);
        let mut sh = Vec::new();
        for m in [&p.m1, &p.m2] {
            match ad.shard(vdaf, &p.ctx.0, m, &nonce, &p.rand.0, false) {
                Ok(x) => sh.push(x),
                Err(ShardErr::Refused(e)) => return Err(format!("shard refused a generated measurement: {e}")),
                Err(ShardErr::Panic(v)) => {
                    ctx.fail(v);
                    return Ok(ctx.finish());
                }
            }
        }
        ctx.nontrivial = true;
        ctx.events = 2;
        let (p1, i1) = &sh[0];
        let (p2, i2) = &sh[1];
        ctx.trace.bytes(p1).bytes(p2);
        for x in i1.iter().chain(i2.iter()) {
            ctx.trace.bytes(x);
        }
        let n = i1.len();
        if p.inst.class == "poplar1" {
            for j in 0..n {
                if i1[j] != i2[j] {
                    ctx.fail(Violation::new("C17.helper", "poplar1|input_share_depends_on_measurement", format!("Poplar1 input share {j} changes with the measurement (same randomness and nonce)")));
                }
            }
            if p.m1 != p.m2 && p1 == p2 {
                ctx.fail(Violation::new("C17.public", "poplar1|public_share_constant", "Poplar1 public share does not depend on the measurement"));
            }
            ctx.counters.inc("c17.poplar_pairs");
        } else {
            for j in 1..n {
                if i1[j] != i2[j] {
                    ctx.fail(Violation::new("C17.helper", format!("prio3|helper_share|{}", p.inst.class), format!("helper {j}'s input share changes with the measurement (same randomness and nonce)")));
                }
            }
            // public share: joint-randomness parts of the helpers (1..n-1) are unchanged
            if p.inst.has_joint_rand() {
                let ss = p.inst.seed_size();
                if p1.len() != ss * n || p2.len() != ss * n {
                    return Err("unexpected public share length".into());
                }
                for j in 1..n {
                    if p1[ss * j..ss * j + ss] != p2[ss * j..ss * j + ss] {
                        ctx.fail(Violation::new("C17.helper", format!("prio3|helper_jr_part|{}", p.inst.class), format!("helper {j}'s joint-randomness part changes with the measurement")));
                    }
                }
                ctx.probe("joint_rand_type");
            } else if p1 != p2 {
                ctx.fail(Violation::new("C17.public", "prio3|public_nojr", "public share of a type without joint randomness depends on the measurement"));
            }
            // leader share: blind identical; measurement share difference = encoding difference
            let regions = ad.layout(Kind::Input, 0, 0, &Vec::new());
            // the leader's share must have the layout the instance declares (measurement share, proof shares, blind):
            // a share of another length cannot hold the encoding under a mask
            let want_len: usize = regions.iter().map(|r| r.off + r.len).max().unwrap_or(0);
            if i1[0].len() != want_len || i2[0].len() != want_len {
                ctx.fail(Violation::new("C17.mask", format!("prio3|leader_share_length|{}", p.inst.class), format!("the leader's input share has {} / {} bytes for the two measurements, the instance's layout has {want_len} ({} aggregators)", i1[0].len(), i2[0].len(), n)));
                return Ok(ctx.finish());
            }
            let modulus = model::modulus(&p.inst);
            let e1 = model::encode_raw(&p.inst, &p.m1).ok_or("no encoder")?;
            let e2 = model::encode_raw(&p.inst, &p.m2).ok_or("no encoder")?;
            for r in &regions {
                let (a, b) = (&i1[0][r.off..r.off + r.len], &i2[0][r.off..r.off + r.len]);
                match r.name {
                    "joint_rand_blind" => {
                        if a != b {
                            ctx.fail(Violation::new("C17.leader_blind", "prio3|leader_blind", "the leader's joint-randomness blind changes with the measurement"));
                        }
                    }
                    "measurement_share" => {
                        let cnt = r.len / r.elem;
                        if cnt != e1.len() {
                            return Err(format!("encoding length {} vs share length {cnt}", e1.len()));
                        }
                        for k in 0..cnt {
                            let mut x = [0u8; 16];
                            let mut y = [0u8; 16];
                            x[..r.elem].copy_from_slice(&a[k * r.elem..(k + 1) * r.elem]);
                            y[..r.elem].copy_from_slice(&b[k * r.elem..(k + 1) * r.elem]);
                            let d_share = model::sub_mod(u128::from_le_bytes(x), u128::from_le_bytes(y), modulus);
                            let d_enc = model::sub_mod(e1[k].0 % modulus, e2[k].0 % modulus, modulus);
                            if d_share != d_enc {
                                ctx.fail(Violation::new("C17.mask", format!("prio3|mask|{}", p.inst.class), format!("leader measurement share element {k}: share difference {d_share} != encoding difference {d_enc}")));
                                break;
                            }
                        }
                    }
                    _ => {}
                }
            }
            ctx.counters.inc("c17.prio3_pairs");
        }
        Ok(ctx.finish())
    }
}

fn exec(plan: &PlanTwin, counters: &mut Counters) -> Result<RunOut, String> {
    match guard_run(|| dispatch(&plan.inst, TwinVis { plan, counters })) {
        Err(e) => Err(e),
        Ok(Ok(r)) => r,
        Ok(Err(BuildErr::Refused(e))) | Ok(Err(BuildErr::Unknown(e))) => Err(e),
        Ok(Err(BuildErr::Panic(v))) => Err(v.detail),
    }
}

impl Check for CheckTwin {
    fn id(&self) -> &'static str {
        "C17"
    }
    fn level(&self) -> &'static str {
        "exploration"
    }
    fn runs(&self, tier: Tier) -> u64 {
        std::env::var("VERIF_RUNS").ok().and_then(|s| s.parse().ok()).unwrap_or(match tier {
            Tier::Quick => 40_000,
            Tier::Thorough => 1_000_000,
        })
    }
    fn gen(&self, seed: u64, _run: u64, _tier: Tier) -> Value {
        serde_json::to_value(gen(seed)).unwrap()
    }
    fn exec(&self, plan: &Value, counters: &mut Counters) -> Result<RunOut, String> {
        let p: PlanTwin = serde_json::from_value(plan.clone()).map_err(|e| e.to_string())?;
        exec(&p, counters)
    }
    fn gen_exec(&self, seed: u64, _run: u64, _tier: Tier, counters: &mut Counters) -> Result<(RunOut, Option<Value>), String> {
        let p = gen(seed);
        let out = exec(&p, counters)?;
        let keep = out.violation.is_some();
        Ok((out, if keep { Some(serde_json::to_value(&p).unwrap()) } else { None }))
    }
    fn shrink(&self, plan: &Value) -> Vec<Value> {
        let Ok(p) = serde_json::from_value::<PlanTwin>(plan.clone()) else { return Vec::new() };
        let mut out = Vec::new();
        if p.inst.n > 2 {
            let mut q = p.clone();
            q.inst.n = 2;
            q.rand = Hx(q.rand.0.iter().cycle().take(model::rand_len(&q.inst)).cloned().collect());
            out.push(q);
        }
        if p.inst.proofs > 1 && p.inst.class != "sumvec64" {
            let mut q = p.clone();
            q.inst.proofs = 1;
            out.push(q);
        }
        if !p.ctx.0.is_empty() {
            let mut q = p.clone();
            q.ctx = Hx(vec![]);
            out.push(q);
        }
        out.into_iter().map(|x| serde_json::to_value(x).unwrap()).collect()
    }
    fn rule(&self) -> String {
        "twin executions of the library's deterministic sharding under one plan (ctx, nonce, randomness) with two measurements; distinct = distinct (class, n, proofs, length, chunk) signatures. A relational property of a function: the simulator contributes the randomness seam and exact replay only.".into()
    }
    fn assumptions(&self) -> Vec<String> {
        vec!["honest encodings are recomputed by the harness (model.rs) and compared through the share difference".into(), "the property has no schedule in it; claimed at exploration level".into()]
    }
    fn components(&self) -> Value {
        json!({"real": ["Prio3::shard_with_random (all classes)", "Poplar1::shard_with_random", "share codecs"], "stub": ["measurement generators", "reference encoder"]})
    }
    fn inapplicable_faults(&self) -> Vec<String> {
        vec!["all transport / crash / clock / disk faults: the property is about one function's outputs under a fixed randomness tape".into()]
    }
}
