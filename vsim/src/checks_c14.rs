//! C14 / world E1: the library's unmodified `ParallelSumMultithreaded::eval_poly` and the three
//! `Prio3*Multithreaded` types run over `simrayon`, a stub thread pool whose thread count, split /
//! steal decisions and task execution order all come from the plan's tape. Oracle: byte equality
//! with the serial twins (`ParallelSum`, serial Prio3 types).

use crate::core::*;
use crate::inst::{dispatch, Adapter, BuildErr, Inst, SimVdaf, Visitor};
use crate::model;
use crate::rng::Rng;
use crate::util::{Counters, Hx, H64, N};
use prio::codec::{Encode, ParameterizedDecode};
use prio::field::{Field128, FieldElement};
use prio::flp::gadgets::{Mul, ParallelSum, ParallelSumGadget, ParallelSumMultithreaded};
use prio::flp::{FlpError, Gadget};
#[cfg(feature = "stub")]
use rayon::sim;
/// Fallback build (/verif/vsim-real: the real rayon crate, used when the tree under test does not
/// compile against the stub): no tape, the parallel calls run on rayon's own pool.
#[cfg(not(feature = "stub"))]
mod sim {
    #[derive(Clone, Debug, Default)]
    pub struct Config {
        pub threads: usize,
        pub tape: Vec<u32>,
        pub widened: bool,
    }
    #[derive(Clone, Debug, PartialEq, Eq, Hash)]
    #[allow(dead_code)]
    pub enum Task {
        Leaf { id: u32, lo: usize, hi: usize },
        Reduce { id: u32, left: u32, right: u32 },
    }
    pub fn install(_: Config) {}
    pub fn uninstall() -> (Vec<Task>, u64, usize) {
        (Vec::new(), 0, 0)
    }
}
use serde::{Deserialize, Serialize};
use serde_json::{json, Value};
use std::cell::RefCell;

#[derive(Clone, Debug, Serialize, Deserialize, PartialEq)]
pub struct Sched {
    pub threads: u32,
    pub tape: Vec<u32>,
    pub widened: bool,
}

#[derive(Clone, Debug, Serialize, Deserialize, PartialEq)]
#[serde(tag = "k")]
pub enum Plan14 {
    /// gadget level: eval_poly of ParallelSumMultithreaded<TracingMul> vs ParallelSum<Mul>
    Gadget { chunks: u32, wire_len: u32, calls: u32, seed: u64, sched: Sched },
    /// Prio3*Multithreaded shard + verify_init vs the serial type
    Prio3 { inst: Inst, ctx: Hx, nonce: Hx, rand: Hx, vk: Hx, meas: Vec<N>, sched: Sched },
    /// the same comparisons with the REAL rayon in /verif/vreal: engine "miri" (seeded, exactly
    /// repeatable thread schedule) or "native" (OS-scheduled pools of 1..max_threads; supplementary)
    Real { engine: String, mode: String, seed: u64, iters: u32, max_threads: u32 },
}

pub struct Check14;
pub fn checks() -> Vec<Box<dyn Check>> {
    vec![Box::new(Check14)]
}
const ACCEPT: &[&str] = &["C14.", "panic"];

thread_local! {
    static CHUNK_LOG: RefCell<Vec<u64>> = const { RefCell::new(Vec::new()) };
}

/// `Mul` that records which chunk (by content hash) each `eval_poly` call worked on.
#[derive(Clone, Debug, PartialEq, Eq)]
struct TracingMul(Mul);
impl Gadget<Field128> for TracingMul {
    fn eval(&mut self, inp: &[Field128]) -> Result<Field128, FlpError> {
        self.0.eval(inp)
    }
    fn eval_poly(&self, outp: &mut [Field128], inp: &[Vec<Field128>]) -> Result<(), FlpError> {
        let mut h = H64::new();
        for v in inp {
            for x in v {
                h.bytes(&x.get_encoded().unwrap_or_default());
            }
        }
        CHUNK_LOG.with(|l| l.borrow_mut().push(h.finish()));
        <Mul as Gadget<Field128>>::eval_poly(&self.0, outp, inp)
    }
    fn arity(&self) -> usize {
        <Mul as Gadget<Field128>>::arity(&self.0)
    }
    fn degree(&self) -> usize {
        <Mul as Gadget<Field128>>::degree(&self.0)
    }
    fn calls(&self) -> usize {
        <Mul as Gadget<Field128>>::calls(&self.0)
    }
    fn as_any(&mut self) -> &mut dyn std::any::Any {
        self
    }
}

fn gen_sched(rng: &mut Rng, leaves_hint: usize) -> Sched {
    let threads = *rng.pick(&[1u32, 1, 2, 2, 3, 4, 4, 8, 16, 64]);
    let n = 8 + 6 * leaves_hint.min(200);
    let tape = match rng.below(4) {
        0 => vec![],                                       // nothing stolen, FIFO order
        1 => (0..n).map(|_| 1u32).collect(),               // everything stolen
        _ => (0..n).map(|_| rng.u32()).collect(),
    };
    Sched { threads, tape, widened: rng.chance(1, 5) }
}

fn gen(seed: u64, tier: Tier) -> Plan14 {
    let mut rng = Rng::new(seed);
    let rng = &mut rng;
    if rng.chance(1, 2) {
        let chunks = match rng.below(6) {
            0 => 1,
            1 => 2,
            2 => 1 + rng.below(140) as u32,
            3 => 60 + rng.below(16) as u32,
            _ => 1 + rng.below(12) as u32,
        };
        let wire_len = *rng.pick(&[2u32, 2, 4, 8, 16, 32]);
        Plan14::Gadget { chunks, wire_len, calls: wire_len.saturating_sub(1).max(1), seed: rng.u64(), sched: gen_sched(rng, chunks as usize) }
    } else {
        let class = *rng.pick(&["sumvec", "hist", "multihot"]);
        let big = tier == Tier::Thorough && rng.chance(1, 3);
        let len = 1 + rng.below(if big { 300 } else { 40 }) as u32;
        let mut inst = Inst { class: class.to_string(), n: 2 + rng.below(3) as u8, proofs: if rng.chance(1, 6) { 2 } else { 1 }, max: N(1), len, chunk: 1, weight: 1, mt: true, named: rng.chance(1, 2), xof: String::new() };
        match class {
            "sumvec" => inst.max = N(*rng.pick(&[1u128, 2, 3, 7, 8, 255, 1000])),
            "multihot" => inst.weight = 1 + rng.below(len as u64 + 2) as u32,
            _ => {}
        }
        let ilen = model::input_len(&inst).max(1);
        inst.chunk = match rng.below(6) {
            0 => 1,
            1 => ilen as u32,
            2 => ilen as u32 + 1,
            3 => (ilen as f64).sqrt().ceil() as u32,
            _ => 1 + rng.below(ilen as u64 + 1) as u32,
        }
        .max(1);
        if inst.proofs > 1 {
            inst.named = false;
        }
        let il = model::input_len(&inst).max(1);
        let leaves = il.div_ceil(inst.chunk.max(1) as usize);
        Plan14::Prio3 { ctx: Hx(rng.bytes(4)), nonce: Hx(rng.bytes(16)), rand: Hx(rng.bytes(model::rand_len(&inst))), vk: Hx(rng.bytes(32)), meas: model::gen_meas(&inst, rng), sched: gen_sched(rng, leaves), inst }
    }
}

struct RunVis<'a> {
    ctx: &'a [u8],
    nonce: [u8; 16],
    rand: &'a [u8],
    vk: &'a [u8],
    meas: &'a [N],
}

impl<'a> Visitor for RunVis<'a> {
    /// (public, inputs, per aggregator (state, verifier share)) as bytes, or an error/violation
    type Out = Result<(Vec<u8>, Vec<Vec<u8>>, Vec<(Vec<u8>, Vec<u8>)>), Result<String, Violation>>;
    fn visit<V, A, const VK: usize>(self, vdaf: &V, ad: &A) -> Self::Out
    where
        V: SimVdaf<VK>,
        A: Adapter<V>,
    {
        let (pb, ib) = match ad.shard(vdaf, self.ctx, self.meas, &self.nonce, self.rand, false) {
            Ok(x) => x,
            Err(crate::inst::ShardErr::Refused(e)) => return Err(Ok(e)),
            Err(crate::inst::ShardErr::Panic(v)) => return Err(Err(v)),
        };
        let mut vk = [0u8; VK];
        vk.copy_from_slice(&self.vk[..VK]);
        let public = V::PublicShare::get_decoded_with_param(vdaf, &pb).map_err(|e| Ok(e.to_string()))?;
        let ap = ad.agg_param(&Vec::new()).map_err(Ok)?;
        let mut out = Vec::new();
        for (j, b) in ib.iter().enumerate() {
            let share = V::InputShare::get_decoded_with_param(&(vdaf, j), b).map_err(|e| Ok(e.to_string()))?;
            match guard("verify_init", || vdaf.verify_init(&vk, self.ctx, j, &ap, &self.nonce, &public, &share)) {
                Ok(Ok((st, sh))) => out.push((V::enc_state(&st).map_err(|e| Ok(e.to_string()))?, sh.get_encoded().map_err(|e| Ok(e.to_string()))?)),
                Ok(Err(e)) => return Err(Ok(format!("verify_init: {e}"))),
                Err(v) => return Err(Err(v)),
            }
        }
        Ok((pb, ib, out))
    }
}

fn note_trace(ctx: &mut Ctx, trace: &[sim::Task], calls: u64, used: usize, sched: &Sched) {
    let leaves = trace.iter().filter(|t| matches!(t, sim::Task::Leaf { .. })).count();
    let mut h = H64::new();
    for t in trace {
        match t {
            sim::Task::Leaf { id, lo, hi } => h.u64(1).u64(*id as u64).u64(*lo as u64).u64(*hi as u64),
            sim::Task::Reduce { id, left, right } => h.u64(2).u64(*id as u64).u64(*left as u64).u64(*right as u64),
        };
    }
    ctx.sig.u64(h.finish());
    ctx.trace.u64(h.finish()).u64(calls).u64(used as u64);
    ctx.events += trace.len() as u64;
    if cfg!(not(feature = "stub")) {
        ctx.counters.inc("engine.fallback_real_rayon_in_process");
    }
    ctx.counters.add("simrayon.parallel_calls", calls);
    ctx.counters.add("simrayon.tasks", trace.len() as u64);
    if calls > 0 {
        if leaves as u64 == calls {
            ctx.probe("one_leaf_per_call");
        }
        if leaves as u64 > calls * sched.threads as u64 {
            ctx.probe("more_leaves_than_threads");
        }
        if sched.tape.iter().any(|x| x & 1 == 1) && leaves as u64 > calls {
            ctx.probe("stolen_split");
        }
        if sched.widened {
            ctx.probe("widened_split_points");
        }
    }
}

fn exec_real(engine: &str, mode: &str, seed: u64, iters: u32, max_threads: u32, ctx: &mut Ctx) -> Result<(), String> {
    use std::process::Command;
    ctx.sig.str("C14.real").str(engine).str(mode).u64(seed);
    let dir = std::env::var("VREAL_DIR").unwrap_or_else(|_| "/verif/vreal".to_string());
    let dir = dir.as_str();
    let out = if engine == "miri" {
        if std::env::var("VREAL_MIRI").map(|v| v == "off").unwrap_or(false) {
            ctx.counters.inc("real.miri_skipped");
            return Ok(());
        }
        Command::new("cargo")
            .current_dir(dir)
            .env("MIRIFLAGS", format!("-Zmiri-disable-isolation -Zmiri-tree-borrows -Zmiri-permissive-provenance -Zmiri-ignore-leaks -Zmiri-seed={seed}"))
            .env("CARGO_NET_OFFLINE", "true")
            .args(["+nightly", "miri", "run", "--offline", "--quiet", "--", mode, &seed.to_string(), &iters.to_string(), &max_threads.to_string()])
            .output()
    } else {
        Command::new(format!("{dir}/target/release/vreal")).args([mode, &seed.to_string(), &iters.to_string(), &max_threads.to_string()]).output()
    };
    let out = match out {
        Ok(o) => o,
        Err(e) => {
            ctx.counters.inc(&format!("real.{engine}_unavailable"));
            ctx.counters.inc(&format!("real.spawn_error.{}", e.kind() as u32));
            return Ok(());
        }
    };
    let text = String::from_utf8_lossy(&out.stdout).to_string();
    let mut ok = false;
    for line in text.lines() {
        if let Some(rest) = line.strip_prefix("T ") {
            let h = rest.split_whitespace().last().and_then(|x| u64::from_str_radix(x, 16).ok()).unwrap_or(0);
            ctx.sig.u64(h);
            ctx.trace.u64(if engine == "miri" { h } else { 0 });
            ctx.events += 1;
            ctx.nontrivial = true;
            ctx.counters.inc(&format!("real.{engine}_comparisons"));
        } else if line.starts_with("MISMATCH") {
            ctx.fail(Violation::new("C14.real", format!("real|{engine}|{mode}"), format!("real rayon ({engine}): {line}")));
            return Ok(());
        } else if line.starts_with("OK") {
            ok = true;
        }
    }
    if !ok {
        // build problem, Miri unsupported operation, ...: not a property violation
        ctx.counters.inc(&format!("real.{engine}_inconclusive"));
        let err = String::from_utf8_lossy(&out.stderr);
        if err.contains("Undefined Behavior") || err.contains("data race") {
            ctx.fail(Violation::new("C14.real", format!("real|{engine}|ub"), format!("Miri reported undefined behaviour / a data race with real rayon: {}", err.lines().filter(|l| l.contains("error")).take(3).collect::<Vec<_>>().join(" | "))));
        }
    }
    Ok(())
}

fn exec(p: &Plan14, ctx: &mut Ctx) -> Result<(), String> {
    match p {
        Plan14::Real { engine, mode, seed, iters, max_threads } => exec_real(engine, mode, *seed, *iters, *max_threads, ctx),
        Plan14::Gadget { chunks, wire_len, calls, seed, sched } => {
            ctx.sig.str("C14.gadget").u64(*chunks as u64).u64(*wire_len as u64).u64(sched.threads as u64);
            ctx.nontrivial = true;
            let chunks = *chunks as usize;
            let n = *wire_len as usize;
            let mut rng = Rng::new(*seed);
            let inp: Vec<Vec<Field128>> = (0..2 * chunks).map(|_| (0..n).map(|_| Field128::from(rng.u128() % model::P128)).collect()).collect();
            let out_len = (2 * n - 1).next_power_of_two();
            let serial: ParallelSum<Field128, Mul> = ParallelSumGadget::new(Mul::new(*calls as usize), chunks);
            let par: ParallelSumMultithreaded<Field128, TracingMul> = ParallelSumGadget::new(TracingMul(Mul::new(*calls as usize)), chunks);
            let mut a = vec![Field128::from(7u128); out_len];
            let mut b = vec![Field128::from(9u128); out_len];
            let ra = guard("ParallelSum::eval_poly", || serial.eval_poly(&mut a, &inp));
            CHUNK_LOG.with(|l| l.borrow_mut().clear());
            sim::install(sim::Config { threads: sched.threads as usize, tape: sched.tape.clone(), widened: sched.widened });
            let rb = guard("ParallelSumMultithreaded::eval_poly", || par.eval_poly(&mut b, &inp));
            let (trace, calls_made, used) = sim::uninstall();
            note_trace(ctx, &trace, calls_made, used, sched);
            let log = CHUNK_LOG.with(|l| std::mem::take(&mut *l.borrow_mut()));
            let mut lh = H64::new();
            for x in &log {
                lh.u64(*x);
            }
            ctx.sig.u64(lh.finish());
            match (ra, rb) {
                (Err(v), _) | (_, Err(v)) => ctx.fail(v),
                (Ok(Ok(())), Ok(Ok(()))) => {
                    if log.len() != chunks {
                        ctx.fail(Violation::new("C14.gadget", "gadget|chunk_count", format!("multithreaded gadget evaluated {} chunks, expected {chunks}", log.len())));
                    }
                    if a != b {
                        ctx.fail(Violation::new("C14.gadget", "gadget|differs", format!("ParallelSumMultithreaded::eval_poly differs from ParallelSum::eval_poly ({chunks} chunks, wire length {n}, {} simulated threads, {} tasks)", sched.threads, trace.len())));
                    }
                    ctx.counters.inc("c14.gadget_compared");
                }
                (Ok(x), Ok(y)) => {
                    if x.is_ok() != y.is_ok() {
                        ctx.fail(Violation::new("C14.gadget", "gadget|ok_err", "serial and multithreaded gadgets disagree on success"));
                    }
                }
            }
            Ok(())
        }
        Plan14::Prio3 { inst, ctx: c, nonce, rand, vk, meas, sched } => {
            ctx.sig.str("C14.prio3").str(&inst.class).u64(inst.n as u64).u64(inst.len as u64).u64(inst.chunk as u64).u64(sched.threads as u64);
            ctx.counters.inc(&format!("class.{}-mt", inst.class));
            ctx.nontrivial = true;
            let mut n16 = [0u8; 16];
            n16.copy_from_slice(&nonce.0);
            let mut serial_inst = inst.clone();
            serial_inst.mt = false;
            let il = model::input_len(inst);
            let leaves = il.div_ceil(inst.chunk as usize);
            if leaves < sched.threads as usize {
                ctx.probe("fewer_chunks_than_threads");
            }
            if leaves == 1 {
                ctx.probe("single_chunk");
            }
            if il % inst.chunk as usize != 0 {
                ctx.probe("partial_last_chunk");
            }
            let s = dispatch(&serial_inst, RunVis { ctx: &c.0, nonce: n16, rand: &rand.0, vk: &vk.0, meas });
            sim::install(sim::Config { threads: sched.threads as usize, tape: sched.tape.clone(), widened: sched.widened });
            let m = dispatch(inst, RunVis { ctx: &c.0, nonce: n16, rand: &rand.0, vk: &vk.0, meas });
            let (trace, calls_made, used) = sim::uninstall();
            note_trace(ctx, &trace, calls_made, used, sched);
            let unwrap = |r: Result<<RunVis as Visitor>::Out, BuildErr>, ctx: &mut Ctx| -> Result<Option<(Vec<u8>, Vec<Vec<u8>>, Vec<(Vec<u8>, Vec<u8>)>)>, String> {
                match r {
                    Ok(Ok(x)) => Ok(Some(x)),
                    Ok(Err(Ok(e))) => Err(format!("honest run failed: {e}")),
                    Ok(Err(Err(v))) | Err(BuildErr::Panic(v)) => {
                        ctx.fail(v);
                        Ok(None)
                    }
                    Err(BuildErr::Refused(e)) | Err(BuildErr::Unknown(e)) => Err(e),
                }
            };
            // one variant failing an honest run that the other completes is a difference between them, not a harness matter
            let failed = |r: &Result<<RunVis as Visitor>::Out, BuildErr>| -> Option<String> {
                match r {
                    Ok(Err(Ok(e))) => Some(e.clone()),
                    Err(BuildErr::Refused(e)) => Some(e.clone()),
                    _ => None,
                }
            };
            match (failed(&s), failed(&m)) {
                (None, Some(e)) if matches!(s, Ok(Ok(_))) => {
                    ctx.fail(Violation::new("C14.prio3", format!("{}|mt_fails", inst.class), format!("{}-multithreaded fails an honest run that the serial type completes ({} simulated threads): {e}", inst.class, sched.threads)));
                    return Ok(());
                }
                (Some(e), None) if matches!(m, Ok(Ok(_))) => {
                    ctx.fail(Violation::new("C14.prio3", format!("{}|serial_fails", inst.class), format!("the serial {} fails an honest run that the multithreaded type completes: {e}", inst.class)));
                    return Ok(());
                }
                _ => {}
            }
            let (Some(s), Some(m)) = (unwrap(s, ctx)?, unwrap(m, ctx)?) else { return Ok(()) };
            if calls_made == 0 {
                // legitimate (e.g. an implementation that stays serial below a size threshold); the
                // byte comparison below still applies
                ctx.counters.inc("c14.no_parallel_call");
            }
            let what = if s.0 != m.0 {
                Some("public share")
            } else if s.1 != m.1 {
                Some("input shares")
            } else if s.2.iter().zip(m.2.iter()).any(|(a, b)| a.1 != b.1) {
                Some("verifier shares")
            } else if s.2 != m.2 {
                Some("verify states")
            } else {
                None
            };
            if let Some(w) = what {
                ctx.fail(Violation::new("C14.prio3", format!("prio3|{}|{w}", inst.class), format!("{}-multithreaded: {w} differ from the serial type ({} simulated threads, {} parallel calls, {} tasks)", inst.class, sched.threads, calls_made, trace.len())));
            }
            ctx.counters.inc("c14.prio3_compared");
            Ok(())
        }
    }
}

fn exec_top(p: &Plan14, counters: &mut Counters) -> Result<RunOut, String> {
    let r = guard_run(|| {
        let mut ctx = Ctx::new(counters, ACCEPT);
        let r = exec(p, &mut ctx);
        // never leave a tape installed
        let _ = sim::uninstall();
        r.map(|_| ctx.finish())
    });
    match r {
        Ok(x) => x,
        Err(e) => {
            let _ = sim::uninstall();
            Err(e)
        }
    }
}

impl Check for Check14 {
    fn id(&self) -> &'static str {
        "C14"
    }
    fn level(&self) -> &'static str {
        "exploration"
    }
    fn runs(&self, tier: Tier) -> u64 {
        std::env::var("VERIF_RUNS").ok().and_then(|s| s.parse().ok()).unwrap_or(match tier {
            Tier::Quick => 30_000,
            Tier::Thorough => 1_000_000,
        })
    }
    fn gen(&self, seed: u64, _run: u64, tier: Tier) -> Value {
        serde_json::to_value(gen(seed, tier)).unwrap()
    }
    fn exec(&self, plan: &Value, counters: &mut Counters) -> Result<RunOut, String> {
        let p: Plan14 = serde_json::from_value(plan.clone()).map_err(|e| e.to_string())?;
        exec_top(&p, counters)
    }
    fn gen_exec(&self, seed: u64, _run: u64, tier: Tier, counters: &mut Counters) -> Result<(RunOut, Option<Value>), String> {
        let p = gen(seed, tier);
        let out = exec_top(&p, counters)?;
        let keep = out.violation.is_some();
        Ok((out, if keep { Some(serde_json::to_value(&p).unwrap()) } else { None }))
    }
    fn fixed_plans(&self, tier: Tier) -> Vec<Value> {
        // real rayon: Miri-scheduled (replayable) and natively scheduled (supplementary)
        let mut out = Vec::new();
        let (miri_seeds, native_runs) = if tier == Tier::Thorough { (48u64, 64u64) } else { (8, 16) };
        for s in 0..miri_seeds {
            let both = tier == Tier::Thorough && s % 3 == 0;
            out.push(Plan14::Real { engine: "miri".into(), mode: if both { "both".into() } else { "gadget".into() }, seed: 1000 + s, iters: if both { 2 } else { 1 }, max_threads: 4 });
        }
        for s in 0..native_runs {
            out.push(Plan14::Real { engine: "native".into(), mode: "both".into(), seed: s, iters: if tier == Tier::Thorough { 2000 } else { 300 }, max_threads: 16 });
        }
        out.into_iter().map(|x| serde_json::to_value(x).unwrap()).collect()
    }
    fn shrink(&self, plan: &Value) -> Vec<Value> {
        let Ok(p) = serde_json::from_value::<Plan14>(plan.clone()) else { return Vec::new() };
        let mut out = Vec::new();
        match &p {
            Plan14::Real { .. } => {}
            Plan14::Gadget { chunks, wire_len, calls, seed, sched } => {
                for t in [1u32, 2] {
                    if sched.threads > t {
                        out.push(Plan14::Gadget { chunks: *chunks, wire_len: *wire_len, calls: *calls, seed: *seed, sched: Sched { threads: t, tape: sched.tape.clone(), widened: sched.widened } });
                    }
                }
                if !sched.tape.is_empty() {
                    out.push(Plan14::Gadget { chunks: *chunks, wire_len: *wire_len, calls: *calls, seed: *seed, sched: Sched { threads: sched.threads, tape: vec![], widened: false } });
                }
                if *chunks > 1 {
                    out.push(Plan14::Gadget { chunks: chunks / 2, wire_len: *wire_len, calls: *calls, seed: *seed, sched: sched.clone() });
                    out.push(Plan14::Gadget { chunks: chunks - 1, wire_len: *wire_len, calls: *calls, seed: *seed, sched: sched.clone() });
                }
                if *wire_len > 1 {
                    out.push(Plan14::Gadget { chunks: *chunks, wire_len: wire_len / 2, calls: (wire_len / 2).saturating_sub(1).max(1), seed: *seed, sched: sched.clone() });
                }
            }
            Plan14::Prio3 { inst, ctx, nonce, rand, vk, meas, sched } => {
                for t in [1u32, 2] {
                    if sched.threads > t {
                        out.push(Plan14::Prio3 { inst: inst.clone(), ctx: ctx.clone(), nonce: nonce.clone(), rand: rand.clone(), vk: vk.clone(), meas: meas.clone(), sched: Sched { threads: t, tape: sched.tape.clone(), widened: sched.widened } });
                    }
                }
                if !sched.tape.is_empty() {
                    out.push(Plan14::Prio3 { inst: inst.clone(), ctx: ctx.clone(), nonce: nonce.clone(), rand: rand.clone(), vk: vk.clone(), meas: meas.clone(), sched: Sched { threads: sched.threads, tape: vec![], widened: false } });
                }
            }
        }
        out.into_iter().map(|x| serde_json::to_value(x).unwrap()).collect()
    }
    fn wall_limit_s(&self) -> u64 {
        1200
    }
    fn rule(&self) -> String {
        "E1 (stub scheduler): seeded thread count 1..64, per-split stolen bits following rayon's LengthSplitter policy (optionally arbitrary split points), and a seeded topological execution order of leaf and reduce tasks, for (a) ParallelSumMultithreaded<TracingMul>::eval_poly vs ParallelSum<Mul>::eval_poly over 1..70 chunks and (b) Prio3SumVec/Histogram/MultihotCountVec-Multithreaded shard_with_random + verify_init at every aggregator vs the serial types; distinct = distinct (configuration, realised task trace, realised chunk order) signatures".into()
    }
    fn assumptions(&self) -> Vec<String> {
        vec![
            "simrayon reproduces the contract of rayon's par_chunks().fold().map().reduce() chain: one fold identity and one reduce identity per leaf, leaves folded left to right, results combined by the reduce op in tree order; the split tree follows rayon's LengthSplitter".into(),
            "real rayon is cross-checked separately (C14 real-rayon runs under Miri / natively, see DESIGN.md) — the stub runs tasks one at a time, so data races inside a task are out of its reach".into(),
        ]
    }
    fn components(&self) -> Value {
        json!({"real": ["ParallelSumMultithreaded::eval_poly (unmodified)", "Prio3SumVecMultithreaded / Prio3HistogramMultithreaded / Prio3MultihotCountVecMultithreaded shard + verify_init", "ParallelSum and the serial Prio3 types"], "stub": ["rayon (simrayon: single OS thread, tape-driven split / steal / order) in the seeded E1 runs", "TracingMul inner gadget"], "real_rayon_runs": "fixed plans run /verif/vreal with the real rayon-core pool: under Miri (one -Zmiri-seed = one repeatable schedule, pools of 1..4 threads) and natively (pools of 1..16 threads, OS-scheduled, supplementary)"})
    }
    fn inapplicable_faults(&self) -> Vec<String> {
        vec!["network / crash / clock / disk faults: the property is about one in-process computation under different thread schedules".into()]
    }
}
