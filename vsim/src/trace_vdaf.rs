//! TraceVdaf: an instrumented, order-sensitive, R-round two-party VDAF (harness code, DESIGN
//! Appendix B). It exists to make the ping-pong topology's behaviour observable:
//!  * `verifier_shares_to_message` requires shares[i].agg_id == i (aggregator order matters);
//!  * `verify_next` requires the message's round and own tag to match the state;
//!  * the output share commits to the whole transcript;
//!  * every call is logged.

use prio::codec::{CodecError, Decode, Encode, ParameterizedDecode};
use prio::vdaf::{Aggregatable, Aggregator, Collector, Vdaf, VdafError, VerifyTransition};
use std::cell::RefCell;
use std::io::{Cursor, Read};

#[derive(Clone, Debug)]
pub struct TraceVdaf {
    pub rounds: u8,
}

fn h128(parts: &[&[u8]]) -> [u8; 16] {
    let mut a = crate::util::H64::new();
    let mut b = crate::util::H64(0x9E37_79B9_7F4A_7C15);
    for p in parts {
        a.bytes(p);
        b.bytes(p);
        b.u64(0xA5);
    }
    let mut out = [0u8; 16];
    out[..8].copy_from_slice(&a.finish().to_le_bytes());
    out[8..].copy_from_slice(&b.finish().to_le_bytes());
    out
}

#[derive(Clone, Debug, PartialEq, Eq)]
pub struct Call {
    pub f: &'static str,
    pub agg_id: u8,
    pub round: u8,
    /// for verifier_shares_to_message: the agg ids in the order handed over
    pub order: Vec<u8>,
    pub ok: bool,
}

thread_local! {
    pub static CALLS: RefCell<Vec<Call>> = const { RefCell::new(Vec::new()) };
}
pub fn take_calls() -> Vec<Call> {
    CALLS.with(|c| std::mem::take(&mut *c.borrow_mut()))
}
fn log(c: Call) {
    CALLS.with(|l| {
        let mut l = l.borrow_mut();
        if l.len() < 10_000 {
            l.push(c)
        }
    });
}

fn read_exact<const N: usize>(b: &mut Cursor<&[u8]>) -> Result<[u8; N], CodecError> {
    let mut a = [0u8; N];
    b.read_exact(&mut a).map_err(|e| CodecError::Io(e))?;
    Ok(a)
}

#[derive(Clone, Debug, PartialEq, Eq)]
pub struct TState {
    pub agg_id: u8,
    pub round: u8,
    pub input: u64,
    pub transcript: [u8; 16],
}
impl Encode for TState {
    fn encode(&self, b: &mut Vec<u8>) -> Result<(), CodecError> {
        b.push(self.agg_id);
        b.push(self.round);
        b.extend_from_slice(&self.input.to_be_bytes());
        b.extend_from_slice(&self.transcript);
        Ok(())
    }
    fn encoded_len(&self) -> Option<usize> {
        Some(26)
    }
}
impl<'a> ParameterizedDecode<(&'a TraceVdaf, usize)> for TState {
    fn decode_with_param((v, agg_id): &(&'a TraceVdaf, usize), b: &mut Cursor<&[u8]>) -> Result<Self, CodecError> {
        let hdr = read_exact::<2>(b)?;
        if hdr[0] as usize != *agg_id || hdr[0] > 1 || hdr[1] >= v.rounds {
            return Err(CodecError::UnexpectedValue);
        }
        let input = u64::from_be_bytes(read_exact::<8>(b)?);
        let transcript = read_exact::<16>(b)?;
        Ok(TState { agg_id: hdr[0], round: hdr[1], input, transcript })
    }
}

#[derive(Clone, Debug, PartialEq, Eq)]
pub struct TShare {
    pub agg_id: u8,
    pub round: u8,
    pub tag: [u8; 16],
}
impl Encode for TShare {
    fn encode(&self, b: &mut Vec<u8>) -> Result<(), CodecError> {
        b.push(self.agg_id);
        b.push(self.round);
        b.extend_from_slice(&self.tag);
        Ok(())
    }
    fn encoded_len(&self) -> Option<usize> {
        Some(18)
    }
}
impl ParameterizedDecode<TState> for TShare {
    fn decode_with_param(_st: &TState, b: &mut Cursor<&[u8]>) -> Result<Self, CodecError> {
        let hdr = read_exact::<2>(b)?;
        if hdr[0] > 1 {
            return Err(CodecError::UnexpectedValue);
        }
        let tag = read_exact::<16>(b)?;
        Ok(TShare { agg_id: hdr[0], round: hdr[1], tag })
    }
}

#[derive(Clone, Debug, PartialEq, Eq)]
pub struct TMsg {
    pub round: u8,
    pub tags: [[u8; 16]; 2],
}
impl Encode for TMsg {
    fn encode(&self, b: &mut Vec<u8>) -> Result<(), CodecError> {
        b.push(self.round);
        b.extend_from_slice(&self.tags[0]);
        b.extend_from_slice(&self.tags[1]);
        Ok(())
    }
    fn encoded_len(&self) -> Option<usize> {
        Some(33)
    }
}
impl ParameterizedDecode<TState> for TMsg {
    fn decode_with_param(_st: &TState, b: &mut Cursor<&[u8]>) -> Result<Self, CodecError> {
        let r = read_exact::<1>(b)?;
        Ok(TMsg { round: r[0], tags: [read_exact::<16>(b)?, read_exact::<16>(b)?] })
    }
}

#[derive(Clone, Debug, PartialEq, Eq)]
pub struct TOut(pub u64, pub [u8; 16]);
impl Encode for TOut {
    fn encode(&self, b: &mut Vec<u8>) -> Result<(), CodecError> {
        b.extend_from_slice(&self.0.to_be_bytes());
        b.extend_from_slice(&self.1);
        Ok(())
    }
    fn encoded_len(&self) -> Option<usize> {
        Some(24)
    }
}
impl<'a> ParameterizedDecode<(&'a TraceVdaf, &'a TAp)> for TOut {
    fn decode_with_param(_: &(&'a TraceVdaf, &'a TAp), b: &mut Cursor<&[u8]>) -> Result<Self, CodecError> {
        Ok(TOut(u64::from_be_bytes(read_exact::<8>(b)?), read_exact::<16>(b)?))
    }
}

#[derive(Clone, Debug, PartialEq, Eq)]
pub struct TAgg(pub u64);
impl From<TOut> for TAgg {
    fn from(o: TOut) -> Self {
        TAgg(o.0)
    }
}
impl Aggregatable for TAgg {
    type OutputShare = TOut;
    fn merge(&mut self, o: &Self) -> Result<(), VdafError> {
        self.0 = self.0.wrapping_add(o.0);
        Ok(())
    }
    fn accumulate(&mut self, o: &TOut) -> Result<(), VdafError> {
        self.0 = self.0.wrapping_add(o.0);
        Ok(())
    }
}
impl Encode for TAgg {
    fn encode(&self, b: &mut Vec<u8>) -> Result<(), CodecError> {
        b.extend_from_slice(&self.0.to_be_bytes());
        Ok(())
    }
}
impl<'a> ParameterizedDecode<(&'a TraceVdaf, &'a TAp)> for TAgg {
    fn decode_with_param(_: &(&'a TraceVdaf, &'a TAp), b: &mut Cursor<&[u8]>) -> Result<Self, CodecError> {
        Ok(TAgg(u64::from_be_bytes(read_exact::<8>(b)?)))
    }
}

#[derive(Clone, Debug, PartialEq, Eq)]
pub struct TAp(pub u8);
impl Encode for TAp {
    fn encode(&self, b: &mut Vec<u8>) -> Result<(), CodecError> {
        b.push(self.0);
        Ok(())
    }
}
impl Decode for TAp {
    fn decode(b: &mut Cursor<&[u8]>) -> Result<Self, CodecError> {
        Ok(TAp(read_exact::<1>(b)?[0]))
    }
}

#[derive(Clone, Debug, PartialEq, Eq)]
pub struct TInput(pub u64);
impl Encode for TInput {
    fn encode(&self, b: &mut Vec<u8>) -> Result<(), CodecError> {
        b.extend_from_slice(&self.0.to_be_bytes());
        Ok(())
    }
}
impl<'a> ParameterizedDecode<(&'a TraceVdaf, usize)> for TInput {
    fn decode_with_param(_: &(&'a TraceVdaf, usize), b: &mut Cursor<&[u8]>) -> Result<Self, CodecError> {
        Ok(TInput(u64::from_be_bytes(read_exact::<8>(b)?)))
    }
}

#[derive(Clone, Debug, PartialEq, Eq)]
pub struct TPublic;
impl Encode for TPublic {
    fn encode(&self, _b: &mut Vec<u8>) -> Result<(), CodecError> {
        Ok(())
    }
}
impl ParameterizedDecode<TraceVdaf> for TPublic {
    fn decode_with_param(_: &TraceVdaf, _b: &mut Cursor<&[u8]>) -> Result<Self, CodecError> {
        Ok(TPublic)
    }
}

impl Vdaf for TraceVdaf {
    type Measurement = u64;
    type AggregateResult = u64;
    type AggregationParam = TAp;
    type PublicShare = TPublic;
    type InputShare = TInput;
    type OutputShare = TOut;
    type AggregateShare = TAgg;
    fn algorithm_id(&self) -> u32 {
        0xFFFF_7ACE
    }
    fn num_aggregators(&self) -> usize {
        2
    }
}

fn share_tag(transcript: &[u8; 16], agg_id: u8, input: u64, round: u8) -> [u8; 16] {
    h128(&[transcript, &[agg_id], &input.to_be_bytes(), &[round]])
}

impl Aggregator<16, 16> for TraceVdaf {
    type VerifyState = TState;
    type VerifierShare = TShare;
    type VerifierMessage = TMsg;

    fn verify_init(&self, vk: &[u8; 16], ctx: &[u8], agg_id: usize, ap: &TAp, nonce: &[u8; 16], _p: &TPublic, input: &TInput) -> Result<(TState, TShare), VdafError> {
        if agg_id > 1 {
            log(Call { f: "verify_init", agg_id: agg_id as u8, round: 0, order: vec![], ok: false });
            return Err(VdafError::Uncategorized("bad agg id".into()));
        }
        let transcript = h128(&[vk, ctx, nonce, &[ap.0]]);
        let st = TState { agg_id: agg_id as u8, round: 0, input: input.0, transcript };
        let sh = TShare { agg_id: agg_id as u8, round: 0, tag: share_tag(&transcript, agg_id as u8, input.0, 0) };
        log(Call { f: "verify_init", agg_id: agg_id as u8, round: 0, order: vec![], ok: true });
        Ok((st, sh))
    }

    fn verifier_shares_to_message<M: IntoIterator<Item = TShare>>(&self, _ctx: &[u8], _ap: &TAp, inputs: M) -> Result<TMsg, VdafError> {
        let v: Vec<TShare> = inputs.into_iter().collect();
        let order: Vec<u8> = v.iter().map(|s| s.agg_id).collect();
        let ok = v.len() == 2 && v[0].agg_id == 0 && v[1].agg_id == 1 && v[0].round == v[1].round;
        log(Call { f: "verifier_shares_to_message", agg_id: 255, round: v.first().map(|s| s.round).unwrap_or(255), order, ok });
        if !ok {
            return Err(VdafError::Uncategorized("shares not in aggregator order / wrong count / rounds differ".into()));
        }
        Ok(TMsg { round: v[0].round, tags: [v[0].tag, v[1].tag] })
    }

    fn verify_next(&self, _ctx: &[u8], st: TState, msg: TMsg) -> Result<VerifyTransition<Self, 16, 16>, VdafError> {
        let own = share_tag(&st.transcript, st.agg_id, st.input, st.round);
        let ok = msg.round == st.round && msg.tags[st.agg_id as usize] == own;
        log(Call { f: "verify_next", agg_id: st.agg_id, round: st.round, order: vec![], ok });
        if !ok {
            return Err(VdafError::Uncategorized("message does not match state (round / own tag)".into()));
        }
        let t2 = h128(&[&st.transcript, &msg.tags[0], &msg.tags[1]]);
        if st.round + 1 == self.rounds {
            Ok(VerifyTransition::Finish(TOut(st.input, t2)))
        } else {
            let r = st.round + 1;
            Ok(VerifyTransition::Continue(TState { agg_id: st.agg_id, round: r, input: st.input, transcript: t2 }, TShare { agg_id: st.agg_id, round: r, tag: share_tag(&t2, st.agg_id, st.input, r) }))
        }
    }

    fn aggregate_init(&self, _ap: &TAp) -> TAgg {
        TAgg(0)
    }
    fn is_agg_param_valid(_cur: &TAp, _prev: &[TAp]) -> bool {
        true
    }
}

impl Collector for TraceVdaf {
    fn unshard<M: IntoIterator<Item = TAgg>>(&self, _ap: &TAp, shares: M, _n: usize) -> Result<u64, VdafError> {
        Ok(shares.into_iter().fold(0u64, |a, s| a.wrapping_add(s.0)))
    }
}
