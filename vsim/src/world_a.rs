//! World A: broadcast VDAF world. Client(s), n aggregators, a combiner (co-located with
//! aggregator 0), a collector; every message crosses the simulated transport as bytes; every
//! aggregator keeps only encoded bytes as durable state. Real code: all VDAF operations.
//! Stub: transport, store, scheduler and the thin drivers in this file.

use crate::core::{guard, Ctx, Violation};
use crate::inst::{add_mod, Adapter, ApSpec, Inst, Kind, ShardErr, SimVdaf};
use crate::util::{Hx, N};
use crate::wire::{mon_decode, mon_encode};
use prio::codec::{Encode, ParameterizedDecode};
use prio::vdaf::{Aggregatable, VerifyTransition};
use serde::{Deserialize, Serialize};
use std::collections::BTreeMap;

pub const CLIENT: u8 = 255;
pub const COMBINER: u8 = 254;

#[derive(Clone, Debug, Serialize, Deserialize, PartialEq)]
pub struct Rep {
    pub nonce: Hx,
    pub rand: Hx,
    pub meas: Vec<N>,
    /// Byzantine client: `meas` is a raw encoded vector proved over verbatim
    #[serde(default)]
    pub evil: bool,
    /// for `evil` reports that carry a VALID encoding: the measurement it encodes (stub fidelity)
    #[serde(default)]
    pub twin: Option<Vec<N>>,
    /// Byzantine client by wire rewrites of the honest report before fan-out (Poplar1)
    #[serde(default)]
    pub byz: Vec<ByzEdit>,
}

#[derive(Clone, Debug, Serialize, Deserialize, PartialEq)]
#[serde(tag = "e")]
pub enum ByzEdit {
    /// re-program the on-path value of `level` to (beta, kappa): beta in 0 | 1 | 2 | -1 | rand;
    /// kappa = k * beta when `consistent`, else k * beta + 1 (k = the honest authenticator)
    Payload { level: u16, beta: String, consistent: bool },
    /// mutate the seed / control-bit correction words (uncontrolled: may make more nodes live)
    SeedCw { m: Mutation },
    /// A/B share of aggregator `agg` at `level` (>= bits-1 means the leaf pair) += delta
    CorrShare { agg: u8, level: u16, which: u8, delta: N },
    /// IDPF key (which = 0) or correlated-randomness seed (which = 1) bytes of aggregator `agg`
    KeyBytes { agg: u8, which: u8, m: Mutation },
    /// "split the one": flip the off-path control-bit correction at `flip_level` (making that
    /// sibling subtree live), then shift the value correction word of the queried level so that the
    /// on-path candidate and ONE live candidate `dist` positions away sum to (1, authenticator)
    SplitOne { flip_level: u16, dist: u16 },
    /// a client that bets on the verification randomness of the on-path candidate being `guess`: on-path value of
    /// `level` re-programmed to (beta, k * beta) and the leader's B share of that level shifted by
    /// -(beta^2 - beta) * guess^2, which cancels the sketch check exactly when the randomness equals +-guess
    GuessR { level: u16, beta: String, guess: u8 },
    /// both correlated-randomness shares (A, B) of aggregator `agg` at `level` set to zero: its round-two sketch
    /// share A*z + B is then zero whatever the report contains
    ZeroCorr { agg: u8, level: u16 },
}

/// What re-evaluation of a rewritten report with the real code shows for one aggregation parameter.
#[derive(Clone, Debug)]
pub struct ByzLabel {
    pub ap: u32,
    /// the reconstructed vector over the candidates is neither all-zero nor one-hot-1 with the
    /// honest authenticator, or the correlated randomness of the queried level is inconsistent
    pub must_reject: bool,
    pub desc: String,
}

#[derive(Clone, Copy, Debug, Serialize, Deserialize, PartialEq, Eq)]
pub enum EnvKind {
    Upload,
    VShare,
    VMsg,
}

#[derive(Clone, Debug, Serialize, Deserialize, PartialEq)]
#[serde(tag = "t")]
pub enum Mutation {
    Flip { pos: u32, bit: u8 },
    Set { pos: u32, val: u8 },
    /// the same non-zero mask xored into two different bytes (`gap` bytes apart, wrapping): alterations that an
    /// xor-folding or sum-folding comparison would not notice
    Xor2 { pos: u32, gap: u16, mask: u8 },
    /// two bytes exchanged
    Swap { pos: u32, gap: u16 },
    Trunc { keep: u32 },
    Extend { extra: Hx },
    /// element `elem` of region `region` += delta (mod p), re-encoded canonically
    FieldAdd { region: u32, elem: u32, delta: N },
    /// element := raw value (possibly >= p, i.e. non-canonical)
    FieldSet { region: u32, elem: u32, raw: Hx },
}

#[derive(Clone, Debug, Serialize, Deserialize, PartialEq)]
#[serde(tag = "a")]
pub enum Act {
    Drop,
    Dup,
    /// VShare only: an extra share whose field elements are all zero (a Byzantine party adding a
    /// share that leaves the verifier sum unchanged)
    DupZero,
    /// mutate part `part` of the payload (Upload: 0 = public share, 1 = input share)
    Mutate { part: u8, m: Mutation },
    /// replace the payload by the payload of the same logical envelope of report `rep2`
    Splice { rep2: u32 },
}

#[derive(Clone, Debug, Serialize, Deserialize, PartialEq)]
pub struct Fault {
    pub kind: EnvKind,
    pub rep: u32,
    pub ap: u32,
    pub from: u8,
    pub to: u8,
    pub round: u8,
    /// Upload only: alter the public share before fan-out (same alteration on every link)
    #[serde(default)]
    pub at_source: bool,
    pub act: Act,
}

#[derive(Clone, Debug, Serialize, Deserialize, PartialEq)]
pub struct Crash {
    pub step: u32,
    pub node: u8,
    /// restart path: true = recompute from stored report bytes, false = resume from state bytes
    pub recompute: bool,
}

/// Aggregation schedule (C13): per aggregator a partition into batches, an order, a merge order.
#[derive(Clone, Debug, Serialize, Deserialize, PartialEq, Default)]
pub struct AggPlan {
    /// per aggregator: batch index for the k-th finished report (mod number of batches)
    pub batch_of: Vec<Vec<u8>>,
    pub batches: Vec<u8>,
    /// per aggregator: permutation ranks for accumulate order / merge order (consumed in order)
    pub order: Vec<Vec<u32>>,
    /// insert identity merges
    pub identities: bool,
    /// collector's order of aggregate shares
    pub collect_order: Vec<u32>,
    /// try refusals (wrong length) against the accumulator
    pub refusals: bool,
}

/// Corruption of bytes at rest / of collector-bound shares (codec checks C07/C08 only).
#[derive(Clone, Debug, Serialize, Deserialize, PartialEq)]
pub struct StoreFault {
    /// state | out | agg
    pub what: String,
    pub node: u8,
    pub rep: u32,
    pub ap: u32,
    pub m: Mutation,
}

#[derive(Clone, Debug, Serialize, Deserialize, PartialEq)]
pub struct Skew {
    /// ctx | vk | nonce | id | alg (alg: `value` = 4-byte big-endian xor mask of the algorithm identifier)
    pub what: String,
    /// affected aggregators; empty = all of them
    pub who: Vec<u8>,
    pub value: Hx,
    /// id skew: aggregator j processes its share as `ids[j]`
    #[serde(default)]
    pub ids: Vec<u8>,
    /// added to the identifier handed to the library (e.g. 256: identifiers that only differ above
    /// the low byte must not be taken for each other)
    #[serde(default)]
    pub id_offset: u64,
    /// object-level skew: decode the share under the TRUE identifier, process it under the skewed one
    #[serde(default)]
    pub object_level: bool,
}

/// Work for ANOTHER task that the same process performs between two library calls of this run (a client or an
/// aggregator serving several tasks): sharding, and optionally verify_init at every aggregator, of an unrelated
/// report. Library operations are functions of their arguments, so it must not change anything this run observes.
#[derive(Clone, Debug, Serialize, Deserialize, PartialEq)]
pub struct Foreign {
    /// index of the run's own library call (shard / verify_init / combine / verify_next) before which it happens
    pub at: u32,
    /// another instance of the same class (None = the run's own instance)
    pub other: Option<Inst>,
    pub ctx: Hx,
    /// Some(r): the nonce of report r of this run (same nonce under another context / instance)
    pub nonce_of: Option<u32>,
    pub nonce: Hx,
    pub meas: Vec<N>,
    pub rand: Hx,
    /// 0 = shard only, 1 = shard + verify_init at every aggregator
    pub depth: u8,
}

#[derive(Clone, Debug, Serialize, Deserialize, PartialEq)]
pub struct PlanA {
    pub inst: Inst,
    /// honest | tamper | byz | skew
    pub mode: String,
    pub ctx: Hx,
    pub vk: Hx,
    pub confirm: Vec<Hx>,
    pub reports: Vec<Rep>,
    pub aps: Vec<ApSpec>,
    pub faults: Vec<Fault>,
    pub crashes: Vec<Crash>,
    pub choices: Vec<u32>,
    pub agg: AggPlan,
    #[serde(default)]
    pub skew: Option<Skew>,
    /// a second, simultaneous mismatch of another kind (combined mismatches)
    #[serde(default)]
    pub skew2: Option<Skew>,
    /// interleaved work for other tasks
    #[serde(default)]
    pub foreign: Vec<Foreign>,
    /// the client runs the generic-constructor twin of an instance that the aggregators built with a named
    /// constructor (same documented parameters): the two must interoperate
    #[serde(default)]
    pub cross_client: bool,
    /// combiner proceeds with whatever it holds once the transport is idle
    #[serde(default)]
    pub timeouts: bool,
    #[serde(default)]
    pub store_faults: Vec<StoreFault>,
    /// Poplar1: storage offsets (bits into the first storage word) of the IdpfInputs handed to the
    /// library (measurements and candidate prefixes); empty = aligned
    #[serde(default)]
    pub bit_offsets: Vec<u8>,
    /// Poplar1: explicit storage of chosen bit strings: (bits, offset, junk stored before them)
    #[serde(default)]
    pub storage: Vec<(String, u8, String)>,
}

#[derive(Clone)]
struct Env {
    kind: EnvKind,
    rep: u32,
    ap: u32,
    from: u8,
    to: u8,
    round: u8,
    parts: Vec<Vec<u8>>,
    forced: bool,
}

#[derive(Clone, Debug, PartialEq)]
pub enum JobEnd {
    Running,
    Finished(Vec<u8>),
    Failed(String),
}

struct AggJob<S> {
    store_corrupted: bool,
    round: u8,
    state_mem: Option<S>,
    state_bytes: Vec<u8>,
    share_bytes: Vec<u8>,
    end: JobEnd,
}

struct Node<S> {
    reports: BTreeMap<u32, (Vec<u8>, Vec<u8>)>,
    jobs: BTreeMap<(u32, u32), AggJob<S>>,
    recompute: bool,
}

/// What one pass (one verification key) of the world produced.
pub struct PassOut {
    /// per (rep, ap): per aggregator outcome
    pub jobs: BTreeMap<(u32, u32), Vec<JobEnd>>,
    /// per report: shard refused?
    pub shard_refused: Vec<Option<String>>,
    /// number of effective alterations that fired, and the jobs they touched
    pub effective: Vec<EffFault>,
    pub steps: u64,
    /// per ap: (aggregate result as vec, reports included)
    pub results: Vec<Option<(Vec<u128>, Vec<u32>)>>,
    /// honest shard bytes of report 0 (public, inputs) for twin / fidelity comparisons
    pub shards: Vec<Option<(Vec<u8>, Vec<Vec<u8>>)>>,
    /// per report: labels of Byzantine rewrites
    pub byz_labels: Vec<Vec<ByzLabel>>,
}

#[derive(Clone, Debug)]
pub struct EffFault {
    pub idx: usize,
    pub rep: u32,
    pub ap: Option<u32>,
    /// exempt from the strict oracle (see DESIGN 2.4)
    pub exempt: bool,
    pub desc: String,
    /// where the alteration landed (for per-job strictness decisions by the adapter)
    pub site: Option<Site>,
    /// a verifier share replaced wholesale by the one the same sender produced for another report:
    /// (sender, round, source report)
    pub transplant: Option<(u8, u8, u32)>,
    /// verifier-share loss / injection on the way to the combiner: (0 = a share dropped, 1 = an extra share injected; round)
    pub subst: Option<(u8, u8)>,
}

#[derive(Clone, Debug)]
pub struct Site {
    pub kind: Kind,
    pub region: &'static str,
    /// byte range relative to the region start
    pub rel: (usize, usize),
    pub agg: usize,
    pub round: u8,
    pub len_change: bool,
    pub at_source: bool,
}

fn apply_mutation(bytes: &mut Vec<u8>, m: &Mutation, regions: &[crate::inst::Region], modulus: u128) -> Option<(usize, usize)> {
    // returns the byte range touched (start, end) if the bytes changed
    let before = bytes.clone();
    let range = match m {
        Mutation::Flip { pos, bit } => {
            if bytes.is_empty() {
                return None;
            }
            let p = *pos as usize % bytes.len();
            bytes[p] ^= 1 << (bit % 8);
            (p, p + 1)
        }
        Mutation::Set { pos, val } => {
            if bytes.is_empty() {
                return None;
            }
            let p = *pos as usize % bytes.len();
            bytes[p] = *val;
            (p, p + 1)
        }
        Mutation::Xor2 { pos, gap, mask } => {
            if bytes.len() < 2 {
                return None;
            }
            let p = *pos as usize % bytes.len();
            let q = (p + 1 + *gap as usize % (bytes.len() - 1)) % bytes.len();
            let m = if *mask == 0 { 1 } else { *mask };
            bytes[p] ^= m;
            bytes[q] ^= m;
            (p.min(q), p.max(q) + 1)
        }
        Mutation::Swap { pos, gap } => {
            if bytes.len() < 2 {
                return None;
            }
            let p = *pos as usize % bytes.len();
            let q = (p + 1 + *gap as usize % (bytes.len() - 1)) % bytes.len();
            bytes.swap(p, q);
            (p.min(q), p.max(q) + 1)
        }
        Mutation::Trunc { keep } => {
            if bytes.is_empty() {
                return None;
            }
            let k = *keep as usize % bytes.len();
            bytes.truncate(k);
            (k, before.len())
        }
        Mutation::Extend { extra } => {
            if extra.0.is_empty() {
                return None;
            }
            bytes.extend_from_slice(&extra.0);
            (before.len(), bytes.len())
        }
        Mutation::FieldAdd { region, elem, delta } => {
            let fr: Vec<&crate::inst::Region> = regions.iter().filter(|r| r.elem > 1 && r.len >= r.elem).collect();
            if fr.is_empty() {
                return None;
            }
            let _ = modulus;
            let r = fr[*region as usize % fr.len()];
            let cnt = r.len / r.elem;
            let e = *elem as usize % cnt;
            let off = r.off + e * r.elem;
            if off + r.elem > bytes.len() {
                return None;
            }
            if r.elem == 32 {
                // Field255
                let mut w = [0u64; 4];
                for i in 0..4 {
                    let mut b = [0u8; 8];
                    b.copy_from_slice(&bytes[off + 8 * i..off + 8 * i + 8]);
                    w[i] = u64::from_le_bytes(b);
                }
                let d = [delta.0 as u64 | 1, (delta.0 >> 64) as u64, 0, 0];
                let nw = add255(w, d);
                for i in 0..4 {
                    bytes[off + 8 * i..off + 8 * i + 8].copy_from_slice(&nw[i].to_le_bytes());
                }
            } else {
                let p = match r.elem {
                    4 => crate::model::P32,
                    8 => crate::model::P64,
                    _ => crate::model::P128,
                };
                let mut buf = [0u8; 16];
                buf[..r.elem].copy_from_slice(&bytes[off..off + r.elem]);
                let cur = u128::from_le_bytes(buf);
                let mut d = delta.0 % p;
                if d == 0 {
                    d = 1;
                }
                let newv = add_mod(cur % p, d, p);
                bytes[off..off + r.elem].copy_from_slice(&newv.to_le_bytes()[..r.elem]);
            }
            (off, off + r.elem)
        }
        Mutation::FieldSet { region, elem, raw } => {
            let fr: Vec<&crate::inst::Region> = regions.iter().filter(|r| r.elem > 1 && r.len >= r.elem).collect();
            if fr.is_empty() {
                return None;
            }
            let r = fr[*region as usize % fr.len()];
            let cnt = r.len / r.elem;
            let e = *elem as usize % cnt;
            let off = r.off + e * r.elem;
            if off + r.elem > bytes.len() || raw.0.len() < r.elem {
                return None;
            }
            bytes[off..off + r.elem].copy_from_slice(&raw.0[..r.elem]);
            (off, off + r.elem)
        }
    };
    if *bytes == before {
        None
    } else {
        Some(range)
    }
}

pub struct World<'p, 'c, 'cc, V: SimVdaf<VK>, A: Adapter<V>, const VK: usize> {
    pub vdaf: &'p V,
    /// the same instance under another algorithm identifier, used by the aggregators an `alg` skew names
    pub alt: Option<&'p V>,
    pub ad: &'p A,
    pub plan: &'p PlanA,
    pub ctx: &'c mut Ctx<'cc>,
    vk: [u8; VK],
    aps: Vec<V::AggregationParam>,
    nodes: Vec<Node<V::VerifyState>>,
    queue: Vec<Env>,
    sent_log: Vec<Env>,
    fault_used: Vec<bool>,
    pending: BTreeMap<(u32, u32, u8), Vec<(u8, Vec<u8>, bool)>>,
    combined: BTreeMap<(u32, u32, u8), bool>,
    effective: Vec<EffFault>,
    shard_refused: Vec<Option<String>>,
    shards: Vec<Option<(Vec<u8>, Vec<Vec<u8>>)>>,
    byz_labels: Vec<Vec<ByzLabel>>,
    /// bytes of the largest honest message of this instance (what the decoding parameters imply)
    pimplied: usize,
    n: usize,
    /// number of own library calls made so far (foreign work is scheduled relative to it)
    call_no: u32,
}

impl<'p, 'c, 'cc, V: SimVdaf<VK>, A: Adapter<V>, const VK: usize> World<'p, 'c, 'cc, V, A, VK> {
    pub fn new(vdaf: &'p V, ad: &'p A, plan: &'p PlanA, ctx: &'c mut Ctx<'cc>, vk: &[u8]) -> Result<Self, String> {
        let n = vdaf.num_aggregators();
        let mut key = [0u8; VK];
        if vk.len() != VK {
            return Err(format!("plan verify key has {} bytes, VDAF wants {VK}", vk.len()));
        }
        key.copy_from_slice(vk);
        let mut aps = Vec::new();
        for s in &plan.aps {
            // the aggregation parameter travels from the collector to the aggregators as bytes
            let hid = crate::checks_a::honest_id(&plan.inst);
            let built = match ad.agg_param(s) {
                Ok(b) => b,
                Err(e) => {
                    // the plans only contain admissible parameters: a refusal is a violation, not a
                    // harness error
                    ctx.fail(Violation::new(&format!("{hid}.agg_param_codec"), "agg_param|constructor", format!("an admissible aggregation parameter ({} prefixes of length {}) was refused by the constructor: {e}", s.len(), s.first().map(|x| x.len()).unwrap_or(0))));
                    return Err("VIOLATION-RECORDED".into());
                }
            };
            let Some(b) = mon_encode(ctx, "AggregationParam", &built) else {
                ctx.fail(Violation::new(&format!("{hid}.agg_param_codec"), "agg_param|encode", format!("an admissible aggregation parameter ({} prefixes of length {}) cannot be encoded", s.len(), s.first().map(|x| x.len()).unwrap_or(0))));
                aps.push(built);
                continue;
            };
            use prio::codec::Decode;
            // with storage directives the aggregators are handed the object AS BUILT (a collector
            // co-located with the aggregator: no decode in between, which would re-align the bits)
            let as_built = !plan.storage.is_empty() || !plan.bit_offsets.is_empty();
            match mon_decode(ctx, "AggregationParam", &b, 0, |x| V::AggregationParam::get_decoded(x), |v| v.get_encoded(), |v| v.encoded_len()) {
                Some(d) => aps.push(if as_built { built } else { d }),
                None => {
                    ctx.fail(Violation::new(&format!("{hid}.agg_param_codec"), "agg_param|decode", format!("an admissible aggregation parameter ({} prefixes of length {}) does not decode from its own encoding", s.len(), s.first().map(|x| x.len()).unwrap_or(0))));
                    aps.push(built);
                }
            }
        }
        let nodes = (0..n).map(|_| Node { reports: BTreeMap::new(), jobs: BTreeMap::new(), recompute: false }).collect();
        Ok(World {
            vdaf,
            alt: None,
            ad,
            plan,
            ctx,
            vk: key,
            aps,
            nodes,
            queue: Vec::new(),
            sent_log: Vec::new(),
            fault_used: vec![false; plan.faults.len()],
            pending: BTreeMap::new(),
            combined: BTreeMap::new(),
            effective: Vec::new(),
            shard_refused: Vec::new(),
            shards: Vec::new(),
            byz_labels: Vec::new(),
            pimplied: 256,
            n,
            call_no: 0,
        })
    }

    pub fn with_alt(mut self, alt: Option<&'p V>) -> Self {
        self.alt = alt;
        self
    }
    fn skews(&self) -> impl Iterator<Item = &'p Skew> {
        let plan: &'p PlanA = self.plan;
        plan.skew.iter().chain(plan.skew2.iter())
    }
    fn skew_of(&self, what: &str, j: usize) -> Option<&'p Skew> {
        self.skews().find(|s| s.what == what && (s.who.is_empty() || s.who.contains(&(j as u8))))
    }
    /// the instance aggregator `j` (and, for j = 0, the combiner) runs
    fn node_vdaf(&self, j: usize) -> &'p V {
        match (self.alt, self.skew_of("alg", j)) {
            (Some(a), Some(_)) => a,
            _ => self.vdaf,
        }
    }
    fn node_ctx(&self, j: usize) -> Vec<u8> {
        if let Some(s) = self.skew_of("ctx", j) {
            return s.value.0.clone();
        }
        self.plan.ctx.0.clone()
    }
    fn node_vk(&self, j: usize) -> [u8; VK] {
        let mut k = self.vk;
        if let Some(s) = self.skew_of("vk", j) {
            for (a, b) in k.iter_mut().zip(s.value.0.iter()) {
                *a ^= *b;
            }
        }
        k
    }
    fn node_nonce(&self, j: usize, rep: u32) -> [u8; 16] {
        let mut nonce = [0u8; 16];
        nonce.copy_from_slice(&self.plan.reports[rep as usize].nonce.0);
        if let Some(s) = self.skew_of("nonce", j) {
            for (a, b) in nonce.iter_mut().zip(s.value.0.iter()) {
                *a ^= *b;
            }
        }
        nonce
    }
    fn node_id(&self, j: usize) -> usize {
        if let Some(s) = self.skews().find(|s| s.what == "id") {
            if let Some(x) = s.ids.get(j) {
                return (*x as u64 + s.id_offset) as usize;
            }
        }
        j
    }
    /// identifier used for DECODING the input share (object-level skew keeps the true one)
    fn decode_id(&self, j: usize) -> usize {
        match self.skews().find(|s| s.what == "id") {
            Some(s) if s.object_level => j,
            _ => self.node_id(j),
        }
    }

    /// Called before each own library call: perform the foreign work scheduled for this point.
    fn foreign_point(&mut self) {
        let at = self.call_no;
        self.call_no += 1;
        let plan: &'p PlanA = self.plan;
        for f in plan.foreign.iter().filter(|f| f.at == at) {
            let other: Option<V> = f.other.as_ref().and_then(|o| self.ad.same_type_instance(o));
            if f.other.is_some() && other.is_none() {
                self.ctx.counters.inc("foreign.other_instance_unavailable");
                continue;
            }
            let vd: &V = other.as_ref().unwrap_or(self.vdaf);
            let mut nonce = [0u8; 16];
            match f.nonce_of.and_then(|r| plan.reports.get(r as usize)) {
                Some(r) => nonce.copy_from_slice(&r.nonce.0),
                None => {
                    for (a, b) in nonce.iter_mut().zip(f.nonce.0.iter()) {
                        *a = *b;
                    }
                }
            }
            self.ctx.fault(if f.other.is_some() { "foreign_work.other_instance" } else { "foreign_work.other_context" });
            self.ctx.trace.str("foreign").u64(at as u64);
            let (public_b, inputs_b) = match self.ad.shard(vd, &f.ctx.0, &f.meas, &nonce, &f.rand.0, false) {
                Ok(x) => x,
                Err(ShardErr::Panic(v)) => {
                    self.ctx.fail(v);
                    continue;
                }
                Err(ShardErr::Refused(_)) => {
                    self.ctx.counters.inc("foreign.shard_refused");
                    continue;
                }
            };
            if f.depth == 0 {
                continue;
            }
            let spec: ApSpec = if plan.inst.class == "poplar1" { vec![if f.meas.first().map(|m| m.0 != 0).unwrap_or(false) { "1".to_string() } else { "0".to_string() }] } else { Vec::new() };
            let Ok(apv) = self.ad.agg_param(&spec) else { continue };
            let Ok(public) = V::PublicShare::get_decoded_with_param(vd, &public_b) else { continue };
            let key = self.vk;
            for (j, ib) in inputs_b.iter().enumerate() {
                let Ok(input) = V::InputShare::get_decoded_with_param(&(vd, j), ib) else { continue };
                match guard("verify_init (foreign work)", || vd.verify_init(&key, &f.ctx.0, j, &apv, &nonce, &public, &input)) {
                    Err(v) => self.ctx.fail(v),
                    Ok(Err(_)) => self.ctx.counters.inc("foreign.verify_init_refused"),
                    Ok(Ok(_)) => self.ctx.counters.inc("foreign.verify_init_ok"),
                }
            }
        }
    }

    fn log_env(&mut self, tag: &str, e: &Env) {
        self.ctx.trace.str(tag).u64(e.kind as u64).u64(e.rep as u64).u64(e.ap as u64).u64(e.from as u64).u64(e.to as u64).u64(e.round as u64);
        for p in &e.parts {
            self.ctx.trace.bytes(p);
        }
    }

    /// Send = apply matching faults, then enqueue.
    fn send(&mut self, mut env: Env) {
        self.sent_log.push(env.clone());
        let mut dup = false;
        let mut dup_zero = false;
        let mut dropped = false;
        for (i, f) in self.plan.faults.iter().enumerate() {
            if self.fault_used[i] || f.kind != env.kind || f.rep != env.rep || f.round != env.round {
                continue;
            }
            if f.kind != EnvKind::Upload && f.ap != env.ap {
                continue;
            }
            let link_match = f.from == env.from && f.to == env.to;
            if f.at_source && (f.kind == EnvKind::Upload || f.kind == EnvKind::VMsg) {
                // handled in `upload_all` / `combine`, before fan-out
                continue;
            }
            if !link_match {
                continue;
            }
            self.fault_used[i] = true;
            let ap_opt = if f.kind == EnvKind::Upload { None } else { Some(env.ap) };
            match &f.act {
                Act::Drop => {
                    dropped = true;
                    self.ctx.fault("drop");
                    self.effective.push(EffFault { idx: i, rep: env.rep, ap: ap_opt, exempt: false, desc: format!("drop {:?} {}->{}", env.kind, env.from, env.to), site: None, transplant: None, subst: if env.kind == EnvKind::VShare { Some((0, env.round)) } else { None } });
                }
                Act::Dup => {
                    dup = true;
                    self.ctx.fault("duplicate");
                    if env.kind == EnvKind::VShare {
                        self.effective.push(EffFault { idx: i, rep: env.rep, ap: ap_opt, exempt: false, desc: format!("extra verifier share from {}", env.from), site: None, transplant: None, subst: Some((1, env.round)) });
                    }
                }
                Act::DupZero => {
                    if env.kind == EnvKind::VShare {
                        dup = true;
                        dup_zero = true;
                        self.ctx.fault("extra_zero_share");
                        self.effective.push(EffFault { idx: i, rep: env.rep, ap: ap_opt, exempt: false, desc: format!("extra all-zero verifier share attributed to {}", env.from), site: None, transplant: None, subst: Some((1, env.round)) });
                    }
                }
                Act::Mutate { part, m } => {
                    let pi = *part as usize % env.parts.len();
                    let kind = match (env.kind, pi) {
                        (EnvKind::Upload, 0) => Kind::Public,
                        (EnvKind::Upload, _) => Kind::Input,
                        (EnvKind::VShare, _) => Kind::VShare,
                        (EnvKind::VMsg, _) => Kind::VMsg,
                    };
                    let agg = if env.kind == EnvKind::VShare { env.from as usize } else { env.to as usize };
                    let apspec = self.plan.aps.get(env.ap as usize).cloned().unwrap_or_default();
                    let regions = self.ad.layout(kind, agg, env.round, &apspec);
                    let (_, modulus) = self.ad.out_field(&apspec);
                    if let Some((s, e)) = apply_mutation(&mut env.parts[pi], m, &regions, modulus) {
                        self.ctx.fault(match m {
                            Mutation::Flip { .. } => "corrupt.bitflip",
                            Mutation::Set { .. } => "corrupt.setbyte",
                            Mutation::Xor2 { .. } => "corrupt.xor_pair",
                            Mutation::Swap { .. } => "corrupt.swap_bytes",
                            Mutation::Trunc { .. } => "corrupt.truncate",
                            Mutation::Extend { .. } => "corrupt.extend",
                            Mutation::FieldAdd { .. } => "corrupt.field_add",
                            Mutation::FieldSet { .. } => "corrupt.field_set",
                        });
                        // exemption: per-link alteration confined to the recipient's own
                        // joint-randomness part of the public share (ignored by design)
                        let own = env.to as usize;
                        let ss = self.plan.inst.seed_size();
                        let exempt = kind == Kind::Public && self.plan.inst.is_prio3() && s >= ss * own && e <= ss * own + ss && !matches!(m, Mutation::Trunc { .. } | Mutation::Extend { .. });
                        let reg = regions.iter().find(|r| s >= r.off && s < r.off + r.len);
                        let rname = reg.map(|r| r.name).unwrap_or("?");
                        let roff = reg.map(|r| r.off).unwrap_or(0);
                        self.ctx.counters.inc(&format!("alter.{:?}.{}", kind, rname));
                        let site = Site { kind, region: rname, rel: (s - roff, e - roff), agg, round: env.round, len_change: matches!(m, Mutation::Trunc { .. } | Mutation::Extend { .. }), at_source: false };
                        self.effective.push(EffFault { idx: i, rep: env.rep, ap: ap_opt, exempt, desc: format!("{:?} of {:?}[{}..{}] ({}) on link {}->{}", m, kind, s, e, rname, env.from, env.to), site: Some(site), transplant: None, subst: None });
                    } else {
                        self.ctx.counters.inc("fault.noop");
                    }
                }
                Act::Splice { rep2 } => {
                    let src = self.sent_log.iter().find(|x| x.kind == env.kind && x.rep == *rep2 && x.ap == env.ap && x.from == env.from && x.to == env.to && x.round == env.round).cloned();
                    if let Some(src) = src {
                        if src.parts != env.parts {
                            env.parts = src.parts;
                            self.ctx.fault("splice");
                            self.effective.push(EffFault { idx: i, rep: env.rep, ap: ap_opt, exempt: false, desc: format!("payload of report {rep2} spliced into {:?} {}->{}", env.kind, env.from, env.to), site: None, transplant: if env.kind == EnvKind::VShare { Some((env.from, env.round, *rep2)) } else { None }, subst: None });
                        }
                    } else {
                        self.ctx.counters.inc("fault.noop");
                    }
                }
            }
        }
        if dropped {
            return;
        }
        if dup {
            let mut d = env.clone();
            d.forced = true;
            if dup_zero {
                let apspec = self.plan.aps.get(env.ap as usize).cloned().unwrap_or_default();
                for r in self.ad.layout(Kind::VShare, env.from as usize, env.round, &apspec) {
                    if r.elem > 1 && r.off + r.len <= d.parts[0].len() {
                        d.parts[0][r.off..r.off + r.len].iter_mut().for_each(|b| *b = 0);
                    }
                }
            }
            self.queue.push(env);
            self.queue.push(d);
        } else {
            self.queue.push(env);
        }
    }

    fn upload_all(&mut self) {
        for (ri, rep) in self.plan.reports.iter().enumerate() {
            let mut nonce = [0u8; 16];
            nonce.copy_from_slice(&rep.nonce.0);
            self.foreign_point();
            let client: &V = if self.plan.cross_client { self.ad.generic_twin().unwrap_or(self.vdaf) } else { self.vdaf };
            if self.plan.cross_client && self.ad.generic_twin().is_some() {
                self.ctx.probe("client_on_generic_twin_of_named_instance");
            }
            let r = self.ad.shard(client, &self.plan.ctx.0, &rep.meas, &nonce, &rep.rand.0, rep.evil);
            self.ctx.trace.str("shard").u64(ri as u64);
            match r {
                Ok((mut public, mut inputs)) => {
                    self.pimplied = self.pimplied.max(256 + public.len().max(inputs.iter().map(|i| i.len()).max().unwrap_or(0)));
                    self.shards.push(Some((public.clone(), inputs.clone())));
                    if !rep.byz.is_empty() {
                        let labels = self.ad.byz_rewrite(self.vdaf, &self.plan.ctx.0, &nonce, &rep.meas, &mut public, &mut inputs, &rep.byz, &self.plan.aps);
                        self.ctx.fault("byzantine_client_rewrite");
                        for l in &labels {
                            if l.desc.contains("one split between") {
                                self.ctx.probe("split_the_one_two_live_candidates_sum_to_one");
                            }
                            self.ctx.counters.inc(if l.must_reject { "byz.label_must_reject" } else { "byz.label_acceptable" });
                        }
                        while self.byz_labels.len() < ri {
                            self.byz_labels.push(Vec::new());
                        }
                        self.byz_labels.push(labels);
                    }
                    self.shard_refused.push(None);
                    self.ctx.trace.bytes(&public);
                    // at-source alterations of the public share
                    for (i, f) in self.plan.faults.iter().enumerate() {
                        if f.kind == EnvKind::Upload && f.at_source && f.rep == ri as u32 && !self.fault_used[i] {
                            if let Act::Mutate { m, .. } = &f.act {
                                self.fault_used[i] = true;
                                let regions = self.ad.layout(Kind::Public, 0, 0, &self.plan.aps.first().cloned().unwrap_or_default());
                                if let Some((s, e)) = apply_mutation(&mut public, m, &regions, 0) {
                                    self.ctx.fault("corrupt.at_source");
                                    let reg = regions.iter().find(|r| s >= r.off && s < r.off + r.len);
                                    let site = Site { kind: Kind::Public, region: reg.map(|r| r.name).unwrap_or("?"), rel: (s - reg.map(|r| r.off).unwrap_or(0), e - reg.map(|r| r.off).unwrap_or(0)), agg: 0, round: 0, len_change: matches!(m, Mutation::Trunc { .. } | Mutation::Extend { .. }), at_source: true };
                                    self.effective.push(EffFault { idx: i, rep: ri as u32, ap: None, exempt: false, desc: format!("{:?} of public share [{s}..{e}] at source", m), site: Some(site), transplant: None, subst: None });
                                } else {
                                    self.ctx.counters.inc("fault.noop");
                                }
                            }
                        }
                    }
                    for (j, inp) in inputs.into_iter().enumerate() {
                        self.send(Env { kind: EnvKind::Upload, rep: ri as u32, ap: 0, from: CLIENT, to: j as u8, round: 0, parts: vec![public.clone(), inp], forced: false });
                    }
                }
                Err(ShardErr::Refused(e)) => {
                    self.shards.push(None);
                    self.shard_refused.push(Some(e));
                }
                Err(ShardErr::Panic(v)) => {
                    self.shards.push(None);
                    self.shard_refused.push(Some(v.detail.clone()));
                    self.ctx.fail(v);
                }
            }
        }
    }

    fn verify_init_job(&mut self, j: usize, rep: u32, ap: u32) -> Result<(V::VerifyState, Vec<u8>, Vec<u8>), String> {
        let (public_b, input_b) = self.nodes[j].reports.get(&rep).cloned().ok_or("no report")?;
        self.foreign_point();
        let vdaf = self.node_vdaf(j);
        let id = self.node_id(j);
        let public = mon_decode(self.ctx, "PublicShare", &public_b, self.pimplied, |b| V::PublicShare::get_decoded_with_param(vdaf, b), |v| v.get_encoded(), |v| v.encoded_len()).ok_or("public share undecodable")?;
        // size implied by the instance (decoding parameter), measured on the honest report
        let psize = self.pimplied;
        let did = self.decode_id(j);
        let input = mon_decode(self.ctx, "InputShare", &input_b, psize, |b| V::InputShare::get_decoded_with_param(&(vdaf, did), b), |v| v.get_encoded(), |v| v.encoded_len()).ok_or("input share undecodable")?;
        let ctxb = self.node_ctx(j);
        let key = self.node_vk(j);
        let nonce = self.node_nonce(j, rep);
        let apv = &self.aps[ap as usize];
        self.ctx.nontrivial = true;
        let r = guard("verify_init", || vdaf.verify_init(&key, &ctxb, id, apv, &nonce, &public, &input));
        match r {
            Err(v) => {
                self.ctx.fail(v);
                Err("panic in verify_init".into())
            }
            Ok(Err(e)) => Err(format!("verify_init: {e}")),
            Ok(Ok((state, share))) => {
                let sb = match guard("VerifyState::encode", || (V::enc_state(&state), V::state_len_hint(&state))) {
                    Ok((Ok(b), hint)) => {
                        if let Some(h) = hint {
                            if h != b.len() {
                                self.ctx.fail(Violation::new("C07.len", "VerifyState|len", format!("VerifyState: encoded_len() = {h} but encoding has {} bytes", b.len())));
                            }
                        }
                        b
                    }
                    Ok((Err(e), _)) => {
                        self.ctx.fail(Violation::new("C07.encode_err", "VerifyState|encode_err", format!("state fails to encode: {e}")));
                        return Err("state encode".into());
                    }
                    Err(mut v) => {
                        v.oracle = "C07.panic".into();
                        self.ctx.fail(v);
                        return Err("state encode panic".into());
                    }
                };
                // M2: the state decodes from its own encoding to an equal value
                let back = mon_decode(self.ctx, "VerifyState", &sb, psize, |b| vdaf.dec_state(id, b), |v| V::enc_state(v), |v| V::state_len_hint(v));
                match back {
                    Some(b2) => {
                        if b2 != state {
                            self.ctx.fail(Violation::new("C07.roundtrip", "VerifyState|roundtrip", "verify state does not decode to an equal value"));
                        }
                    }
                    None => self.ctx.fail(Violation::new("C07.roundtrip", "VerifyState|undecodable", "verify state does not decode from its own encoding")),
                }
                let shb = mon_encode(self.ctx, "VerifierShare", &share).ok_or("share encode")?;
                Ok((state, sb, shb))
            }
        }
    }

    fn start_jobs(&mut self, j: usize, rep: u32) {
        for ap in 0..self.aps.len() as u32 {
            if self.nodes[j].jobs.contains_key(&(rep, ap)) {
                continue;
            }
            match self.verify_init_job(j, rep, ap) {
                Ok((state, sb, shb)) => {
                    self.ctx.trace.str("init_ok").u64(j as u64).bytes(&sb).bytes(&shb);
                    self.nodes[j].jobs.insert((rep, ap), AggJob { store_corrupted: false, round: 0, state_mem: Some(state), state_bytes: sb, share_bytes: shb.clone(), end: JobEnd::Running });
                    self.send(Env { kind: EnvKind::VShare, rep, ap, from: j as u8, to: COMBINER, round: 0, parts: vec![shb], forced: false });
                }
                Err(e) => {
                    self.ctx.trace.str("init_err").u64(j as u64);
                    self.nodes[j].jobs.insert((rep, ap), AggJob { store_corrupted: false, round: 0, state_mem: None, state_bytes: Vec::new(), share_bytes: Vec::new(), end: JobEnd::Failed(e) });
                }
            }
        }
    }

    /// Current verify state of job (rep, ap) at node j: from memory, or after a crash from the
    /// store (resume) or by recomputation from the stored report (checked against the store).
    fn state_of(&mut self, j: usize, rep: u32, ap: u32) -> Option<V::VerifyState> {
        let (has_mem, round, sbytes, shbytes, running, corrupted) = {
            let job = self.nodes[j].jobs.get(&(rep, ap))?;
            (job.state_mem.is_some(), job.round, job.state_bytes.clone(), job.share_bytes.clone(), job.end == JobEnd::Running, job.store_corrupted)
        };
        if !running {
            return None;
        }
        if has_mem {
            return self.nodes[j].jobs.get(&(rep, ap)).and_then(|x| x.state_mem.clone());
        }
        let vdaf = self.node_vdaf(j);
        let id = self.node_id(j);
        let st = if self.nodes[j].recompute && round == 0 && !corrupted {
            self.ctx.probe("restart_recompute");
            match self.verify_init_job(j, rep, ap) {
                Ok((state, sb, shb)) => {
                    if sb != sbytes || shb != shbytes {
                        self.ctx.fail(Violation::new("C01.recompute", "recompute|differs", format!("re-running verify_init on the stored report gave different state/share bytes at aggregator {j}")));
                    }
                    Some(state)
                }
                Err(_) => {
                    self.ctx.fail(Violation::new("C01.recompute", "recompute|fails", format!("verify_init succeeded before the crash but fails on the same stored bytes at aggregator {j}")));
                    None
                }
            }
        } else {
            self.ctx.probe("restart_resume");
            let st = mon_decode(self.ctx, "VerifyState", &sbytes, self.pimplied, |b| vdaf.dec_state(id, b), |v| V::enc_state(v), |v| V::state_len_hint(v));
            if st.is_none() && !corrupted {
                self.ctx.fail(Violation::new("C07.roundtrip", "VerifyState|restart", format!("stored verify state of aggregator {j} does not decode after restart")));
            }
            st
        };
        if let Some(job) = self.nodes[j].jobs.get_mut(&(rep, ap)) {
            job.state_mem = st.clone();
        }
        st
    }

    fn combine(&mut self, rep: u32, ap: u32, round: u8) {
        if self.combined.contains_key(&(rep, ap, round)) {
            return;
        }
        self.combined.insert((rep, ap, round), true);
        let mut shares = self.pending.remove(&(rep, ap, round)).unwrap_or_default();
        shares.sort_by_key(|s| s.0);
        // the combiner is co-located with aggregator 0 and decodes with its state
        let Some(st0) = self.state_of(0, rep, ap) else {
            self.ctx.counters.inc("combiner.no_state");
            return;
        };
        let mut dec = Vec::new();
        for (_, b, _) in &shares {
            let d = mon_decode(self.ctx, "VerifierShare", b, self.pimplied, |x| V::VerifierShare::get_decoded_with_param(&st0, x), |v| v.get_encoded(), |v| v.encoded_len());
            match d {
                Some(s) => dec.push(s),
                None => {
                    self.ctx.trace.str("combine_undecodable");
                    return;
                }
            }
        }
        if dec.len() + 1 == self.n {
            self.ctx.probe("combiner_n_minus_1");
        } else if dec.len() == self.n + 1 {
            self.ctx.probe("combiner_n_plus_1");
        }
        self.foreign_point();
        let vdaf = self.node_vdaf(0);
        let ctxb = self.node_ctx(0);
        let apv = &self.aps[ap as usize];
        let cnt = dec.len();
        if debug_on() {
            eprintln!("combine rep={rep} ap={ap} round={round} shares={cnt} senders={:?}", shares.iter().map(|s| (s.0, s.2)).collect::<Vec<_>>());
        }
        let r = guard("verifier_shares_to_message", || vdaf.verifier_shares_to_message(&ctxb, apv, dec));
        match r {
            Err(v) => self.ctx.fail(v),
            Ok(Err(_)) => {
                self.ctx.trace.str("combine_err");
                self.ctx.counters.inc("combiner.refused");
            }
            Ok(Ok(msg)) => {
                if cnt != self.n {
                    self.ctx.counters.inc("combiner.accepted_wrong_count");
                }
                let Some(mb) = mon_encode(self.ctx, "VerifierMessage", &msg) else { return };
                // M2 round trip with Eq
                if let Some(back) = mon_decode(self.ctx, "VerifierMessage", &mb, self.pimplied, |x| V::VerifierMessage::get_decoded_with_param(&st0, x), |v| v.get_encoded(), |v| v.encoded_len()) {
                    if back != msg {
                        self.ctx.fail(Violation::new("C07.roundtrip", "VerifierMessage|roundtrip", "verifier message does not decode to an equal value"));
                    }
                } else {
                    self.ctx.fail(Violation::new("C07.roundtrip", "VerifierMessage|undecodable", "verifier message does not decode from its own encoding"));
                }
                // alterations of the verifier message before fan-out (every recipient sees the same)
                let mut mb = mb;
                for (i, f) in self.plan.faults.iter().enumerate() {
                    if f.kind == EnvKind::VMsg && f.at_source && f.rep == rep && f.ap == ap && f.round == round && !self.fault_used[i] {
                        if let Act::Mutate { m, .. } = &f.act {
                            self.fault_used[i] = true;
                            let apspec = self.plan.aps[ap as usize].clone();
                            let regions = self.ad.layout(Kind::VMsg, 1, round, &apspec);
                            if let Some((s, e)) = apply_mutation(&mut mb, m, &regions, 0) {
                                self.ctx.fault("corrupt.vmsg_at_source");
                                let reg = regions.iter().find(|r| s >= r.off && s < r.off + r.len);
                                let site = Site { kind: Kind::VMsg, region: reg.map(|r| r.name).unwrap_or("?"), rel: (s - reg.map(|r| r.off).unwrap_or(0), e - reg.map(|r| r.off).unwrap_or(0)), agg: 1, round, len_change: matches!(m, Mutation::Trunc { .. } | Mutation::Extend { .. }), at_source: true };
                                self.effective.push(EffFault { idx: i, rep, ap: Some(ap), exempt: false, desc: format!("{:?} of the verifier message [{s}..{e}] before fan-out", m), site: Some(site), transplant: None, subst: None });
                            } else {
                                self.ctx.counters.inc("fault.noop");
                            }
                        }
                    }
                }
                self.ctx.trace.str("combine_ok").bytes(&mb);
                for j in 0..self.n {
                    self.send(Env { kind: EnvKind::VMsg, rep, ap, from: COMBINER, to: j as u8, round, parts: vec![mb.clone()], forced: false });
                }
            }
        }
    }

    fn deliver(&mut self, env: Env) {
        if debug_on() {
            eprintln!("deliver {:?} rep={} ap={} {}->{} round={} forced={} len={:?}", env.kind, env.rep, env.ap, env.from, env.to, env.round, env.forced, env.parts.iter().map(|p| p.len()).collect::<Vec<_>>());
        }
        self.log_env("deliver", &env);
        self.ctx.events += 1;
        match env.kind {
            EnvKind::Upload => {
                let j = env.to as usize;
                if self.nodes[j].reports.contains_key(&env.rep) {
                    self.ctx.counters.inc("driver.dup_upload_ignored");
                    return;
                }
                self.nodes[j].reports.insert(env.rep, (env.parts[0].clone(), env.parts[1].clone()));
                self.start_jobs(j, env.rep);
            }
            EnvKind::VShare => {
                let key = (env.rep, env.ap, env.round);
                if self.combined.contains_key(&key) {
                    self.ctx.counters.inc("driver.late_share_ignored");
                    return;
                }
                let e = self.pending.entry(key).or_default();
                if !env.forced && e.iter().any(|s| s.0 == env.from && !s.2) {
                    self.ctx.counters.inc("driver.dup_share_ignored");
                    return;
                }
                e.push((env.from, env.parts[0].clone(), env.forced));
                let distinct: std::collections::BTreeSet<u8> = e.iter().map(|s| s.0).collect();
                // fire once every sender has reported and every injected extra copy has arrived too
                let expect_extra = self.plan.faults.iter().filter(|f| f.kind == EnvKind::VShare && f.rep == env.rep && f.ap == env.ap && f.round == env.round && matches!(f.act, Act::Dup | Act::DupZero)).count();
                if distinct.len() == self.n && e.len() >= self.n + expect_extra {
                    self.combine(env.rep, env.ap, env.round);
                }
            }
            EnvKind::VMsg => {
                let j = env.to as usize;
                let (round, running) = match self.nodes[j].jobs.get(&(env.rep, env.ap)) {
                    Some(job) => (job.round, job.end == JobEnd::Running),
                    None => {
                        self.ctx.counters.inc("driver.msg_unknown_job");
                        return;
                    }
                };
                if !running || round != env.round {
                    self.ctx.counters.inc("driver.msg_stale_ignored");
                    return;
                }
                let Some(state) = self.state_of(j, env.rep, env.ap) else {
                    if let Some(job) = self.nodes[j].jobs.get_mut(&(env.rep, env.ap)) {
                        job.end = JobEnd::Failed("state lost".into());
                    }
                    return;
                };
                let b = &env.parts[0];
                let msg = mon_decode(self.ctx, "VerifierMessage", b, self.pimplied, |x| V::VerifierMessage::get_decoded_with_param(&state, x), |v| v.get_encoded(), |v| v.encoded_len());
                let Some(msg) = msg else {
                    if let Some(job) = self.nodes[j].jobs.get_mut(&(env.rep, env.ap)) {
                        job.end = JobEnd::Failed("verifier message undecodable".into());
                    }
                    return;
                };
                self.foreign_point();
                let vdaf = self.node_vdaf(j);
                let ctxb = self.node_ctx(j);
                let r = guard("verify_next", || vdaf.verify_next(&ctxb, state, msg));
                match r {
                    Err(v) => {
                        self.ctx.fail(v);
                        if let Some(job) = self.nodes[j].jobs.get_mut(&(env.rep, env.ap)) {
                            job.end = JobEnd::Failed("panic".into());
                        }
                    }
                    Ok(Err(e)) => {
                        self.ctx.trace.str("next_err");
                        if let Some(job) = self.nodes[j].jobs.get_mut(&(env.rep, env.ap)) {
                            job.end = JobEnd::Failed(format!("verify_next: {e}"));
                        }
                    }
                    Ok(Ok(VerifyTransition::Continue(st, share))) => {
                        let id = self.node_id(j);
                        let sb = match guard("VerifyState::encode", || V::enc_state(&st)) {
                            Ok(Ok(b)) => b,
                            _ => {
                                self.ctx.fail(Violation::new("C07.encode_err", "VerifyState|encode_err", "round>0 state fails to encode"));
                                return;
                            }
                        };
                        if let Some(h) = V::state_len_hint(&st) {
                            if h != sb.len() {
                                self.ctx.fail(Violation::new("C07.len", "VerifyState|len", format!("VerifyState: encoded_len() = {h} but encoding has {} bytes", sb.len())));
                            }
                        }
                        match mon_decode(self.ctx, "VerifyState", &sb, self.pimplied, |x| vdaf.dec_state(id, x), |v| V::enc_state(v), |v| V::state_len_hint(v)) {
                            Some(b2) => {
                                if b2 != st {
                                    self.ctx.fail(Violation::new("C07.roundtrip", "VerifyState|roundtrip", "round>0 verify state does not decode to an equal value"));
                                }
                            }
                            None => self.ctx.fail(Violation::new("C07.roundtrip", "VerifyState|undecodable", "round>0 verify state does not decode from its own encoding")),
                        }
                        let Some(shb) = mon_encode(self.ctx, "VerifierShare", &share) else { return };
                        self.ctx.trace.str("next_continue").bytes(&sb).bytes(&shb);
                        if let Some(job) = self.nodes[j].jobs.get_mut(&(env.rep, env.ap)) {
                            job.round += 1;
                            job.state_mem = Some(st);
                            job.state_bytes = sb;
                            job.share_bytes = shb.clone();
                        }
                        self.send(Env { kind: EnvKind::VShare, rep: env.rep, ap: env.ap, from: j as u8, to: COMBINER, round: env.round + 1, parts: vec![shb], forced: false });
                    }
                    Ok(Ok(VerifyTransition::Finish(out))) => {
                        let Some(ob) = mon_encode(self.ctx, "OutputShare", &out) else { return };
                        let apv = &self.aps[env.ap as usize];
                        let back = mon_decode(self.ctx, "OutputShare", &ob, self.pimplied, |x| V::OutputShare::get_decoded_with_param(&(vdaf, apv), x), |v| v.get_encoded(), |v| v.encoded_len());
                        if back.is_none() {
                            // a stored state that was corrupted at rest and still decoded is a DIFFERENT
                            // valid state (e.g. a leaf-level state under an inner-level parameter); its
                            // output share need not be a value of this job's decoding parameter
                            let corrupted = self.nodes[j].jobs.get(&(env.rep, env.ap)).map(|job| job.store_corrupted).unwrap_or(false);
                            if corrupted {
                                self.ctx.counters.inc("c07.output_of_corrupted_state_not_judged");
                            } else {
                                self.ctx.fail(Violation::new("C07.roundtrip", "OutputShare|undecodable", "output share does not decode from its own encoding"));
                            }
                        }
                        self.ctx.trace.str("next_finish").bytes(&ob);
                        if let Some(job) = self.nodes[j].jobs.get_mut(&(env.rep, env.ap)) {
                            job.end = JobEnd::Finished(ob);
                            job.state_mem = None;
                        }
                    }
                }
            }
        }
    }

    fn crash(&mut self, c: &Crash) {
        let j = c.node as usize % self.n;
        self.ctx.fault("crash_restart");
        self.nodes[j].recompute = c.recompute;
        let mut mid = false;
        let sfs: Vec<StoreFault> = self.plan.store_faults.iter().filter(|f| f.what == "state" && f.node as usize % self.n == j).cloned().collect();
        let aps = self.plan.aps.clone();
        for (key, job) in self.nodes[j].jobs.iter_mut() {
            if job.end == JobEnd::Running {
                mid = true;
                for f in &sfs {
                    if f.rep == key.0 && f.ap == key.1 {
                        let regions = self.ad.layout(Kind::State, j, job.round, &aps[key.1 as usize]);
                        let (_, modulus) = self.ad.out_field(&aps[key.1 as usize]);
                        if apply_mutation(&mut job.state_bytes, &f.m, &regions, modulus).is_some() {
                            job.store_corrupted = true;
                            self.ctx.counters.inc("fault.store_corrupt.state");
                        }
                    }
                }
            }
            job.state_mem = None;
        }
        if mid {
            self.ctx.probe("crash_between_init_and_next");
        }
        self.ctx.trace.str("crash").u64(j as u64);
    }

    pub fn run(mut self) -> PassOut {
        self.upload_all();
        let mut step: u64 = 0;
        let max_steps = 200_000u64;
        loop {
            for c in self.plan.crashes.iter().filter(|c| c.step as u64 == step) {
                let c = c.clone();
                self.crash(&c);
            }
            if self.queue.is_empty() {
                // idle transport: combiner timeouts
                let mut fired = false;
                if self.plan.timeouts {
                    let keys: Vec<(u32, u32, u8)> = self.pending.keys().cloned().collect();
                    for k in keys {
                        if !self.combined.contains_key(&k) {
                            self.ctx.fault("combiner_timeout");
                            self.combine(k.0, k.1, k.2);
                            fired = true;
                        }
                    }
                }
                if !fired || self.queue.is_empty() {
                    break;
                }
            }
            let idx = match self.plan.choices.get(step as usize) {
                Some(c) => *c as usize % self.queue.len(),
                None => 0,
            };
            if idx != 0 {
                self.ctx.counters.inc("sched.reordered");
            }
            let env = self.queue.remove(idx);
            self.deliver(env);
            step += 1;
            if step > max_steps || self.ctx.failed() {
                break;
            }
        }
        let mut jobs = BTreeMap::new();
        for rep in 0..self.plan.reports.len() as u32 {
            for ap in 0..self.aps.len() as u32 {
                let v: Vec<JobEnd> = (0..self.n).map(|j| self.nodes[j].jobs.get(&(rep, ap)).map(|x| x.end.clone()).unwrap_or(JobEnd::Running)).collect();
                jobs.insert((rep, ap), v);
            }
        }
        let results = if self.ctx.failed() { Vec::new() } else { self.aggregate(&jobs) };
        PassOut { jobs, shard_refused: self.shard_refused, effective: self.effective, steps: step, results, shards: self.shards, byz_labels: self.byz_labels }
    }

    /// Aggregation epilogue: per aggregator a scheduled partition / order / merge tree, compared
    /// with the single-pass `aggregate` (C13), then collection (C01/C03).
    fn aggregate(&mut self, jobs: &BTreeMap<(u32, u32), Vec<JobEnd>>) -> Vec<Option<(Vec<u128>, Vec<u32>)>> {
        let vdaf = self.vdaf;
        let mut results = Vec::new();
        for ap in 0..self.aps.len() as u32 {
            let apv = self.aps[ap as usize].clone();
            let included: Vec<u32> = (0..self.plan.reports.len() as u32).filter(|r| jobs[&(*r, ap)].iter().all(|e| matches!(e, JobEnd::Finished(_)))).collect();
            if included.is_empty() {
                results.push(None);
                continue;
            }
            let mut agg_shares: Vec<Vec<u8>> = Vec::new();
            let mut ok = true;
            for j in 0..self.n {
                let mut outs: Vec<V::OutputShare> = Vec::new();
                for r in &included {
                    if let JobEnd::Finished(b) = &jobs[&(*r, ap)][j] {
                        let mut b = b.clone();
                        for f in self.plan.store_faults.iter().filter(|f| f.what == "out" && f.node as usize % self.n == j && f.rep == *r && f.ap == ap) {
                            let regions = self.ad.layout(Kind::Out, j, 0, &self.plan.aps[ap as usize]);
                            let (_, modulus) = self.ad.out_field(&self.plan.aps[ap as usize]);
                            if apply_mutation(&mut b, &f.m, &regions, modulus).is_some() {
                                self.ctx.counters.inc("fault.store_corrupt.out");
                            }
                        }
                        let b = &b;
                        match mon_decode(self.ctx, "OutputShare", b, self.pimplied, |x| V::OutputShare::get_decoded_with_param(&(vdaf, &apv), x), |v| v.get_encoded(), |v| v.encoded_len()) {
                            Some(o) => outs.push(o),
                            None => ok = false,
                        }
                    }
                }
                if !ok {
                    break;
                }
                // reference: single pass
                let single = guard("aggregate", || vdaf.aggregate(&apv, outs.iter().cloned()));
                let single = match single {
                    Ok(Ok(s)) => s,
                    Ok(Err(e)) => {
                        self.ctx.fail(Violation::new("C13.single_pass", "aggregate|err", format!("single-pass aggregate of verified output shares failed: {e}")));
                        ok = false;
                        break;
                    }
                    Err(v) => {
                        self.ctx.fail(v);
                        ok = false;
                        break;
                    }
                };
                let Some(single_b) = mon_encode(self.ctx, "AggregateShare", &single) else {
                    ok = false;
                    break;
                };
                // scheduled: partition, order, merge
                let ag = &self.plan.agg;
                let nb = (*ag.batches.get(j).unwrap_or(&1)).max(1) as usize;
                let empty: Vec<u8> = Vec::new();
                let empty32: Vec<u32> = Vec::new();
                let bo = ag.batch_of.get(j).unwrap_or(&empty);
                let ord = ag.order.get(j).unwrap_or(&empty32);
                let mut oi = 0usize;
                let mut next_rank = |m: usize| -> usize {
                    let r = ord.get(oi).copied().unwrap_or(0) as usize % m.max(1);
                    oi += 1;
                    r
                };
                let mut batches: Vec<Vec<V::OutputShare>> = (0..nb).map(|_| Vec::new()).collect();
                for (k, o) in outs.iter().enumerate() {
                    let b = bo.get(k).copied().unwrap_or(0) as usize % nb;
                    batches[b].push(o.clone());
                }
                let r = guard("accumulate/merge", || -> Result<V::AggregateShare, String> {
                    let mut parts: Vec<V::AggregateShare> = Vec::new();
                    for b in batches.iter_mut() {
                        let mut acc = vdaf.aggregate_init(&apv);
                        while !b.is_empty() {
                            let i = next_rank(b.len());
                            let o = b.remove(i);
                            acc.accumulate(&o).map_err(|e| format!("accumulate: {e}"))?;
                        }
                        parts.push(acc);
                    }
                    if ag.identities {
                        parts.push(vdaf.aggregate_init(&apv));
                        let pos = next_rank(parts.len());
                        parts.insert(pos, vdaf.aggregate_init(&apv));
                    }
                    while parts.len() > 1 {
                        let a = next_rank(parts.len());
                        let mut x = parts.remove(a);
                        let b = next_rank(parts.len());
                        let y = parts.remove(b);
                        x.merge(&y).map_err(|e| format!("merge: {e}"))?;
                        let pos = next_rank(parts.len() + 1);
                        parts.insert(pos, x);
                    }
                    Ok(parts.pop().unwrap())
                });
                let sched = match r {
                    Ok(Ok(s)) => s,
                    Ok(Err(e)) => {
                        self.ctx.fail(Violation::new("C13.refused", "schedule|err", format!("scheduled aggregation of verified shares failed at aggregator {j}: {e}")));
                        ok = false;
                        break;
                    }
                    Err(v) => {
                        self.ctx.fail(v);
                        ok = false;
                        break;
                    }
                };
                let Some(sched_b) = mon_encode(self.ctx, "AggregateShare", &sched) else {
                    ok = false;
                    break;
                };
                self.ctx.counters.inc("c13.schedules");
                if nb > 1 {
                    self.ctx.probe("c13_multi_batch");
                }
                if sched_b != single_b {
                    self.ctx.fail(Violation::new("C13.order", "schedule|differs", format!("aggregator {j}: aggregate share depends on partition/order/merge tree ({} output shares, {nb} batches)", outs.len())));
                }
                // refusals leave the accumulator unchanged
                if ag.refusals {
                    self.refusal_checks(ap as usize, &sched, &sched_b, &outs);
                }
                // aggregate share crosses the wire
                let back = mon_decode(self.ctx, "AggregateShare", &sched_b, self.pimplied, |x| V::AggregateShare::get_decoded_with_param(&(vdaf, &apv), x), |v| v.get_encoded(), |v| v.encoded_len());
                if back.is_none() {
                    self.ctx.fail(Violation::new("C07.roundtrip", "AggregateShare|undecodable", "aggregate share does not decode from its own encoding"));
                    ok = false;
                    break;
                }
                self.ctx.trace.str("agg_share").u64(j as u64).bytes(&sched_b);
                agg_shares.push(sched_b);
            }
            if !ok || self.ctx.failed() {
                results.push(None);
                continue;
            }
            // collector
            let mut order: Vec<usize> = (0..self.n).collect();
            for i in (1..order.len()).rev() {
                let r = self.plan.agg.collect_order.get(i).copied().unwrap_or(0) as usize % (i + 1);
                order.swap(i, r);
            }
            let mut dec = Vec::new();
            for &j in &order {
                let mut b = agg_shares[j].clone();
                for f in self.plan.store_faults.iter().filter(|f| f.what == "agg" && f.node as usize % self.n == j && f.ap == ap) {
                    let regions = self.ad.layout(Kind::AggShare, j, 0, &self.plan.aps[ap as usize]);
                    let (_, modulus) = self.ad.out_field(&self.plan.aps[ap as usize]);
                    if apply_mutation(&mut b, &f.m, &regions, modulus).is_some() {
                        self.ctx.counters.inc("fault.store_corrupt.agg");
                    }
                }
                let b = &b;
                if let Some(s) = mon_decode(self.ctx, "AggregateShare", b, self.pimplied, |x| V::AggregateShare::get_decoded_with_param(&(vdaf, &apv), x), |v| v.get_encoded(), |v| v.encoded_len()) {
                    dec.push(s);
                }
            }
            let nrep = included.len();
            match guard("unshard", || vdaf.unshard(&apv, dec, nrep)) {
                Ok(Ok(res)) => {
                    let v = self.ad.result_vec(&res);
                    for x in &v {
                        self.ctx.trace.u64(*x as u64).u64((*x >> 64) as u64);
                    }
                    results.push(Some((v, included)));
                }
                Ok(Err(e)) => {
                    self.ctx.fail(Violation::new("C01.unshard", "unshard|err", format!("unshard of honest aggregate shares failed: {e}")));
                    results.push(None);
                }
                Err(v) => {
                    self.ctx.fail(v);
                    results.push(None);
                }
            }
        }
        results
    }

    fn refusal_checks(&mut self, ap_idx: usize, acc: &V::AggregateShare, acc_b: &[u8], outs: &[V::OutputShare]) {
        // wrong-length (and, for Poplar1, wrong-level) output / aggregate shares fabricated from raw
        // element bytes through the adapter
        let Some(o0) = outs.first() else { return };
        let Ok(ob) = o0.get_encoded() else { return };
        let apspec = self.plan.aps[ap_idx].clone();
        let (fs, _) = self.ad.out_field(&apspec);
        if fs == 0 || ob.len() < fs {
            return;
        }
        let mut cands: Vec<(String, Option<V::OutputShare>)> = Vec::new();
        let mut short = ob.clone();
        short.truncate(ob.len() - fs);
        cands.push(("one element short".into(), self.ad.wrong_len_output(&short, &apspec, false)));
        let mut long = ob.clone();
        long.extend(std::iter::repeat(0u8).take(fs));
        cands.push(("one element long".into(), self.ad.wrong_len_output(&long, &apspec, false)));
        let other_fs = if fs == 8 { 32 } else { 8 };
        let cnt = ob.len() / fs;
        cands.push(("other tree level kind".into(), self.ad.wrong_len_output(&vec![0u8; cnt * other_fs], &apspec, true)));
        for (what, bad) in cands {
            let Some(bad) = bad else { continue };
            let mut a = acc.clone();
            let r = guard("accumulate(mismatched share)", || a.accumulate(&bad));
            match r {
                Err(v) => self.ctx.fail(v),
                Ok(Ok(())) => self.ctx.fail(Violation::new("C13.refusal", "accumulate|accepted_mismatch", format!("accumulate accepted an output share that is {what}"))),
                Ok(Err(_)) => {
                    self.ctx.counters.inc("c13.refusals");
                    if let Ok(ab) = a.get_encoded() {
                        if ab != acc_b {
                            self.ctx.fail(Violation::new("C13.refusal", "accumulate|changed", format!("a refused accumulate ({what}) changed the accumulator")));
                        }
                    }
                }
            }
            // the batch entry point must refuse it too, whatever its position in the batch
            let vdaf = self.vdaf;
            let apv = self.aps[ap_idx].clone();
            for pos in 0..2usize {
                let mut batch: Vec<V::OutputShare> = Vec::new();
                if pos == 1 {
                    batch.push(o0.clone());
                }
                batch.push(bad.clone());
                let r3 = guard("aggregate(batch with a mismatched share)", || vdaf.aggregate(&apv, batch));
                match r3 {
                    Err(v) => self.ctx.fail(v),
                    Ok(Ok(_)) => self.ctx.fail(Violation::new("C13.refusal", "aggregate|accepted_mismatch", format!("aggregate accepted a batch whose share #{pos} is {what}"))),
                    Ok(Err(_)) => self.ctx.counters.inc("c13.refusals"),
                }
            }
            // the same refusals on a FRESH (all-zero) accumulator, which must then still be usable: the
            // mismatched share arrives first, the good ones afterwards (order of arrival is the scheduler's)
            for via_merge in [false, true] {
                let mut fresh = vdaf.aggregate_init(&apv);
                let Ok(fresh_b) = fresh.get_encoded() else { continue };
                let other: V::AggregateShare = V::AggregateShare::from(bad.clone());
                let r = if via_merge { guard("merge(mismatched share into a fresh aggregate)", || fresh.merge(&other)) } else { guard("accumulate(mismatched share into a fresh aggregate)", || fresh.accumulate(&bad)) };
                let op = if via_merge { "merge" } else { "accumulate" };
                match r {
                    Err(v) => self.ctx.fail(v),
                    Ok(Ok(())) => self.ctx.fail(Violation::new("C13.refusal", format!("{op}|fresh_accepted_mismatch"), format!("{op} into a fresh aggregate accepted a share that is {what}"))),
                    Ok(Err(_)) => {
                        self.ctx.counters.inc("c13.refusals_fresh");
                        if fresh.get_encoded().ok().as_deref() != Some(&fresh_b[..]) {
                            self.ctx.fail(Violation::new("C13.refusal", format!("{op}|fresh_changed"), format!("a refused {op} ({what}) changed a fresh aggregate")));
                        }
                    }
                }
                // carry on with the accumulator that saw the refusal
                let mut ok = true;
                for o in outs {
                    match guard("accumulate after a refusal", || fresh.accumulate(o)) {
                        Err(v) => {
                            self.ctx.fail(v);
                            ok = false;
                            break;
                        }
                        Ok(Err(e)) => {
                            self.ctx.fail(Violation::new("C13.refusal", format!("{op}|fresh_unusable"), format!("after a refused {op} ({what}) the aggregate refuses a well-formed output share: {e}")));
                            ok = false;
                            break;
                        }
                        Ok(Ok(())) => {}
                    }
                }
                if ok && fresh.get_encoded().ok().as_deref() != Some(acc_b) {
                    self.ctx.fail(Violation::new("C13.refusal", format!("{op}|fresh_differs"), format!("an aggregate that first refused a share ({what}, via {op}) and then accumulated the batch differs from the single-pass aggregate")));
                }
            }
            // the collector's side: a mismatched aggregate share among otherwise good ones must be refused by unshard
            let n = self.n;
            for pos in [0usize, n - 1] {
                let mut shares: Vec<V::AggregateShare> = (0..n).map(|_| acc.clone()).collect();
                shares[pos] = V::AggregateShare::from(bad.clone());
                match guard("unshard(mismatched aggregate share)", || vdaf.unshard(&apv, shares, outs.len().max(1))) {
                    Err(v) => self.ctx.fail(v),
                    Ok(Ok(_)) => self.ctx.fail(Violation::new("C13.refusal", "unshard|accepted_mismatch", format!("unshard accepted an aggregate share (#{pos} of {n}) that is {what}"))),
                    Ok(Err(_)) => self.ctx.counters.inc("c13.refusals_unshard"),
                }
                if n == 1 {
                    break;
                }
            }
            let mut a2 = acc.clone();
            let other: V::AggregateShare = V::AggregateShare::from(bad.clone());
            let r2 = guard("merge(mismatched share)", || a2.merge(&other));
            match r2 {
                Err(v) => self.ctx.fail(v),
                Ok(Ok(())) => self.ctx.fail(Violation::new("C13.refusal", "merge|accepted_mismatch", format!("merge accepted an aggregate share that is {what}"))),
                Ok(Err(_)) => {
                    self.ctx.counters.inc("c13.refusals");
                    if let Ok(ab) = a2.get_encoded() {
                        if ab != acc_b {
                            self.ctx.fail(Violation::new("C13.refusal", "merge|changed", format!("a refused merge ({what}) changed the accumulator")));
                        }
                    }
                }
            }
        }
    }
}

pub fn debug_on() -> bool {
    static ON: std::sync::OnceLock<bool> = std::sync::OnceLock::new();
    *ON.get_or_init(|| std::env::var("VSIM_DEBUG").is_ok())
}

/// Sum of the output shares of one job as integers mod p. `p == 0` with 32-byte elements means
/// Field255 (2^255 - 19); sums that do not fit u128 are reported as u128::MAX (never valid).
pub fn sum_outputs(outs: &[Vec<u8>], fs: usize, p: u128) -> Option<Vec<u128>> {
    if fs == 32 && p == 0 {
        return sum_outputs_255(outs);
    }
    if p == 0 || fs == 0 || fs > 16 {
        return None;
    }
    let len = outs.first()?.len();
    if len % fs != 0 || outs.iter().any(|o| o.len() != len) {
        return None;
    }
    let mut sum = vec![0u128; len / fs];
    for o in outs {
        for (k, s) in sum.iter_mut().enumerate() {
            let mut buf = [0u8; 16];
            buf[..fs].copy_from_slice(&o[k * fs..(k + 1) * fs]);
            *s = add_mod(*s, u128::from_le_bytes(buf) % p, p);
        }
    }
    Some(sum)
}

pub fn add255(a: [u64; 4], b: [u64; 4]) -> [u64; 4] {
    // (a + b) mod (2^255 - 19), inputs < p
    const P: [u64; 4] = [0xffff_ffff_ffff_ffed, 0xffff_ffff_ffff_ffff, 0xffff_ffff_ffff_ffff, 0x7fff_ffff_ffff_ffff];
    let mut r = [0u64; 4];
    let mut c = 0u128;
    for i in 0..4 {
        let t = a[i] as u128 + b[i] as u128 + c;
        r[i] = t as u64;
        c = t >> 64;
    }
    // r < 2p < 2^256 so no carry out; subtract p if r >= p
    let ge = {
        let mut ge = true;
        for i in (0..4).rev() {
            if r[i] != P[i] {
                ge = r[i] > P[i];
                break;
            }
        }
        ge
    };
    if ge {
        let mut bw = 0i128;
        for i in 0..4 {
            let t = r[i] as i128 - P[i] as i128 - bw;
            if t < 0 {
                r[i] = (t + (1i128 << 64)) as u64;
                bw = 1;
            } else {
                r[i] = t as u64;
                bw = 0;
            }
        }
    }
    r
}

fn sum_outputs_255(outs: &[Vec<u8>]) -> Option<Vec<u128>> {
    let len = outs.first()?.len();
    if len % 32 != 0 || outs.iter().any(|o| o.len() != len) {
        return None;
    }
    let mut out = Vec::new();
    for k in 0..len / 32 {
        let mut acc = [0u64; 4];
        for o in outs {
            let mut w = [0u64; 4];
            for i in 0..4 {
                let mut b = [0u8; 8];
                b.copy_from_slice(&o[k * 32 + i * 8..k * 32 + i * 8 + 8]);
                w[i] = u64::from_le_bytes(b);
            }
            acc = add255(acc, w);
        }
        out.push(if acc[2] != 0 || acc[3] != 0 { u128::MAX } else { (acc[1] as u128) << 64 | acc[0] as u128 });
    }
    Some(out)
}
