//! The only source of randomness in the simulator: splitmix64-seeded xoshiro256**.
//! Used in plan generation (stage 1) only; plan execution (stage 2) draws nothing.

#[derive(Clone, Debug)]
pub struct Rng {
    s: [u64; 4],
}

pub fn splitmix64(state: &mut u64) -> u64 {
    *state = state.wrapping_add(0x9E37_79B9_7F4A_7C15);
    let mut z = *state;
    z = (z ^ (z >> 30)).wrapping_mul(0xBF58_476D_1CE4_E5B9);
    z = (z ^ (z >> 27)).wrapping_mul(0x94D0_49BB_1331_11EB);
    z ^ (z >> 31)
}

/// Derive the seed of run `i` of property `prop` from VERIF_SEED.
pub fn run_seed(verif_seed: u64, prop: &str, i: u64) -> u64 {
    let mut st = verif_seed ^ 0xA076_1D64_78BD_642F;
    let mut h = splitmix64(&mut st);
    for b in prop.bytes() {
        st ^= b as u64;
        h ^= splitmix64(&mut st);
    }
    st ^= i.wrapping_mul(0xD6E8_FEB8_6659_FD93);
    h ^ splitmix64(&mut st)
}

impl Rng {
    pub fn new(seed: u64) -> Self {
        let mut st = seed;
        let s = [splitmix64(&mut st), splitmix64(&mut st), splitmix64(&mut st), splitmix64(&mut st)];
        Rng { s }
    }
    pub fn u64(&mut self) -> u64 {
        let r = self.s[1].wrapping_mul(5).rotate_left(7).wrapping_mul(9);
        let t = self.s[1] << 17;
        self.s[2] ^= self.s[0];
        self.s[3] ^= self.s[1];
        self.s[1] ^= self.s[2];
        self.s[0] ^= self.s[3];
        self.s[2] ^= t;
        self.s[3] = self.s[3].rotate_left(45);
        r
    }
    pub fn u32(&mut self) -> u32 {
        (self.u64() >> 32) as u32
    }
    pub fn u128(&mut self) -> u128 {
        ((self.u64() as u128) << 64) | self.u64() as u128
    }
    /// uniform in [0, n) (n > 0); tiny modulo bias is irrelevant here
    pub fn below(&mut self, n: u64) -> u64 {
        debug_assert!(n > 0);
        self.u64() % n
    }
    pub fn usize_below(&mut self, n: usize) -> usize {
        self.below(n as u64) as usize
    }
    /// inclusive range
    pub fn range(&mut self, lo: u64, hi: u64) -> u64 {
        lo + self.below(hi - lo + 1)
    }
    pub fn chance(&mut self, num: u64, den: u64) -> bool {
        self.below(den) < num
    }
    pub fn pick<'a, T>(&mut self, xs: &'a [T]) -> &'a T {
        &xs[self.usize_below(xs.len())]
    }
    pub fn bytes(&mut self, n: usize) -> Vec<u8> {
        let mut v = Vec::with_capacity(n);
        while v.len() < n {
            let x = self.u64().to_le_bytes();
            let k = (n - v.len()).min(8);
            v.extend_from_slice(&x[..k]);
        }
        v
    }
    pub fn arr16(&mut self) -> [u8; 16] {
        let mut a = [0u8; 16];
        a.copy_from_slice(&self.bytes(16));
        a
    }
    pub fn shuffle<T>(&mut self, xs: &mut [T]) {
        for i in (1..xs.len()).rev() {
            let j = self.usize_below(i + 1);
            xs.swap(i, j);
        }
    }
    /// weighted pick: returns index
    pub fn weighted(&mut self, w: &[u32]) -> usize {
        let tot: u64 = w.iter().map(|x| *x as u64).sum();
        let mut r = self.below(tot);
        for (i, x) in w.iter().enumerate() {
            if r < *x as u64 {
                return i;
            }
            r -= *x as u64;
        }
        w.len() - 1
    }
}
