//! Counting allocator: per-thread bytes requested and largest single request, so that a decode
//! call's allocation can be bounded in terms of its input length. Never refuses a request.

use std::alloc::{GlobalAlloc, Layout, System};
use std::cell::Cell;

pub struct Counting;

thread_local! {
    static TOTAL: Cell<u64> = const { Cell::new(0) };
    static LARGEST: Cell<u64> = const { Cell::new(0) };
}

unsafe impl GlobalAlloc for Counting {
    unsafe fn alloc(&self, l: Layout) -> *mut u8 {
        note(l.size());
        System.alloc(l)
    }
    unsafe fn dealloc(&self, p: *mut u8, l: Layout) {
        System.dealloc(p, l)
    }
    unsafe fn alloc_zeroed(&self, l: Layout) -> *mut u8 {
        note(l.size());
        System.alloc_zeroed(l)
    }
    unsafe fn realloc(&self, p: *mut u8, l: Layout, new: usize) -> *mut u8 {
        if new > l.size() {
            note(new - l.size());
        }
        System.realloc(p, l, new)
    }
}

#[inline]
fn note(sz: usize) {
    let _ = TOTAL.try_with(|t| t.set(t.get().wrapping_add(sz as u64)));
    let _ = LARGEST.try_with(|t| {
        if (sz as u64) > t.get() {
            t.set(sz as u64)
        }
    });
}

/// Reset the per-thread window and return a token; `since` gives (bytes, largest) since then.
pub fn mark() -> u64 {
    LARGEST.with(|l| l.set(0));
    TOTAL.with(|t| t.get())
}
pub fn since(mark: u64) -> (u64, u64) {
    (TOTAL.with(|t| t.get()).wrapping_sub(mark), LARGEST.with(|l| l.get()))
}
