#!/usr/bin/env python3
"""Build benign/README.md from benign/<ID>/{notes.md,result.txt}."""
import glob, os, re
root = '/verif/benign'
rows = []
for d in sorted(glob.glob(root + '/C*')):
    name = os.path.basename(d)
    notes = open(d + '/notes.md').read() if os.path.exists(d + '/notes.md') else ''
    title = (notes.strip().splitlines() or [''])[0].lstrip('# ').strip()
    files = sorted(set(re.findall(r'^\+\+\+ b/(\S+)', open(d + '/patch.diff').read(), re.M)))
    res = open(d + '/result.txt').read().strip().splitlines() if os.path.exists(d + '/result.txt') else []
    ok = [l.split()[0] for l in res if ' exit=0' in l]
    bad = [l for l in res if ' exit=0' not in l]
    rows.append((name, title, files, ok, bad))
with open(root + '/README.md', 'w') as f:
    f.write('# Behaviour-preserving changes (false-alarm test)\n\nEach directory holds `patch.diff` and `notes.md` written by an independent sub-agent that saw only the property text, and `result.txt`: the quick tier of every check whose anchors the patch touches, run against a scratch copy of /repo with the patch applied (`tools_benign.sh`). Every entry must be `exit=0`.\n\n')
    f.write('| change | what | files | checks run, all quiet | alarms |\n|---|---|---|---|---|\n')
    for name, title, files, ok, bad in rows:
        f.write(f"| {name} | {title[:160]} | {', '.join(files)} | {', '.join(ok) if ok else '(not run yet)'} | {'; '.join(b[:200] for b in bad) if bad else '—'} |\n")
    n = len(rows); clean = sum(1 for r in rows if r[3] and not r[4])
    f.write(f"\n{n} changes; {clean} ran with every check quiet.\n")
print(open(root + '/README.md').read()[-400:])
