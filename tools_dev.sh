#!/bin/bash
# tools_dev.sh <check args...>: run ./check from a scratch copy of /verif's working tree (/tmp/vdev) that builds
# against a pristine worktree of /repo (/tmp/repo-dev), so development does not depend on /repo's working tree
# while a seeded change is applied there. Outputs go to /tmp/dev-out. Development aid only: evidence and
# detection records always come from /verif against /repo itself.
set -u
[ -d /tmp/repo-dev ] || git -C /repo worktree add --detach /tmp/repo-dev HEAD >/dev/null 2>&1
(cd /tmp/repo-dev && git checkout -q --detach "$(git -C /repo rev-parse HEAD)" && git checkout -- .)
# DEV_PATCH=<file>: apply a (seeded) patch to the scratch worktree only
if [ -n "${DEV_PATCH:-}" ]; then (cd /tmp/repo-dev && git apply "$DEV_PATCH") || exit 2; fi
mkdir -p /tmp/vdev /tmp/dev-out
rsync -a --delete --exclude target --exclude replays /verif/vsim /verif/vreal /verif/vsim-real /verif/check /verif/known /verif/known_findings.json /tmp/vdev/
cp /verif/known_findings.json /tmp/dev-out/; rsync -a /verif/known /tmp/dev-out/
sed -i 's#path = "/repo"#path = "/tmp/repo-dev"#' /tmp/vdev/vsim/Cargo.toml /tmp/vdev/vreal/Cargo.toml /tmp/vdev/vsim-real/Cargo.toml
cd /tmp/vdev && VERIF_DIR=/tmp/dev-out ./check "$@"
