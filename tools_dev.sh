#!/bin/bash
# tools_dev.sh <check args...>: run ./check from a scratch copy of /verif's working tree (/tmp/v$S) that builds
# against a pristine worktree of /repo (/tmp/repo-$S), so development does not depend on /repo's working tree
# while a seeded change is applied there. Outputs go to /tmp/$S-out. Development aid only: evidence and
# detection records always come from /verif against /repo itself.
set -u
# DEV_SLOT names an independent scratch copy (default "dev"): /tmp/repo-<slot>, /tmp/v<slot>, /tmp/<slot>-out
S=${DEV_SLOT:-dev}
# DEV_SRC: where the machinery is copied from (default /verif's working tree; a worktree of /verif's HEAD for
# background loops that must not see half-edited sources)
SRC=${DEV_SRC:-/verif}
[ -d /tmp/repo-$S ] || git -C /repo worktree add --detach /tmp/repo-$S HEAD >/dev/null 2>&1
(cd /tmp/repo-$S && git checkout -q --detach "$(git -C /repo rev-parse HEAD)" && git checkout -- .)
# DEV_PATCH=<file>: apply a (seeded) patch to the scratch worktree only
if [ -n "${DEV_PATCH:-}" ]; then (cd /tmp/repo-$S && git apply "$DEV_PATCH") || exit 2; fi
mkdir -p /tmp/v$S /tmp/$S-out
rsync -a --delete --exclude target --exclude replays $SRC/vsim $SRC/vreal $SRC/vsim-real $SRC/check $SRC/known $SRC/known_findings.json /tmp/v$S/
cp $SRC/known_findings.json /tmp/$S-out/; rsync -a $SRC/known /tmp/$S-out/
sed -i "s#path = \"/repo\"#path = \"/tmp/repo-$S\"#" /tmp/v$S/vsim/Cargo.toml /tmp/v$S/vreal/Cargo.toml /tmp/v$S/vsim-real/Cargo.toml
cd /tmp/v$S && VERIF_DIR=/tmp/$S-out ./check "$@"
