#!/bin/bash
# tools_confirm.sh <seeded-dir>...: confirm, in a scratch worktree under /tmp, that each change
# (1) applies, (2) builds with and without the hook cfg, (3) leaves the pinned suite passing,
# (4) makes its demonstration fail, while (5) the demonstration passes on the unchanged source.
set -u
W=${CONFIRM_WT:-/tmp/confirm-wt}
if [ ! -d $W ]; then git -C /repo worktree add --detach $W HEAD >/dev/null 2>&1 || exit 2; fi
ARGS=(); for a in "$@"; do ARGS+=("$(cd "$a" && pwd)"); done
for D in "${ARGS[@]}"; do
  name=$(basename "$D")
  cd $W && git checkout -q --detach $(git -C /repo rev-parse HEAD) && git checkout -- . && rm -f tests/demo_*.rs
  R="$D/confirm.txt"; : > "$R"
  cp "$D/demo.rs" tests/demo_$name.rs
  # demo on the unchanged source
  if cargo test --offline --features experimental,multithreaded,test-util --test demo_$name >/tmp/confirm.$$.log 2>&1; then echo "demo_unchanged=pass" >> "$R"; else echo "demo_unchanged=FAIL" >> "$R"; tail -5 /tmp/confirm.$$.log >> "$R"; fi
  if ! git apply "$D/patch.diff" 2>>"$R"; then echo "apply=FAIL" >> "$R"; continue; fi
  echo "apply=ok" >> "$R"
  if cargo test --offline --features experimental,multithreaded,test-util --test demo_$name >/tmp/confirm.$$.log 2>&1; then echo "demo_changed=PASS(unexpected)" >> "$R"; else echo "demo_changed=fail(expected)" >> "$R"; grep -m2 -E "panicked|assertion|error\[" /tmp/confirm.$$.log >> "$R"; fi
  rm -f tests/demo_$name.rs
  if RUSTFLAGS='--cfg prio_verif' cargo build --offline --features crypto-dependencies,experimental,multithreaded,test-util >/tmp/confirm.$$.log 2>&1; then echo "build_hooks=ok" >> "$R"; else echo "build_hooks=FAIL" >> "$R"; fi
  cargo test --workspace --no-fail-fast --offline > /tmp/confirm.$$.log 2>&1
  echo "suite: $(grep -E '^test result' /tmp/confirm.$$.log | tr '\n' ' ' | cut -c1-300)" >> "$R"
  if grep -qE "test result: FAILED|error: test failed|^error" /tmp/confirm.$$.log; then echo "suite=FAIL" >> "$R"; else echo "suite=pass" >> "$R"; fi
  git checkout -- . ; echo "== $name"; cat "$R"
done
rm -f /tmp/confirm.$$.log
