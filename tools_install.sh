#!/bin/bash
# tools_install.sh <PROP> : copy a sub-agent's OUT/{E,F} from /tmp/wt-<PROP> into seeded/<PROP>{E,F} and drop the worktree
set -u
P=$1; W=/tmp/wt-$P
for L in E F; do
  [ -d $W/OUT/$L ] || { echo "no $W/OUT/$L"; continue; }
  D=/verif/seeded/$P$L; mkdir -p $D
  cp $W/OUT/$L/patch.diff $W/OUT/$L/demo.rs $W/OUT/$L/notes.md $D/ 2>&1
  (cd /repo && git apply --check $D/patch.diff) && echo "$P$L installed; applies" || echo "$P$L DOES NOT APPLY"
done
git -C /repo worktree remove --force $W && echo "worktree $W removed"
