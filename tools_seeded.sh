#!/bin/bash
# tools_seeded.sh <seeded-dir> [checks...]: apply <dir>/patch.diff to /repo, run the quick checks,
# write <dir>/detection.json (which checks raise an alarm), undo the patch. Never commits to /repo.
set -u
D="$(cd "$1" && pwd)"; shift
CHECKS="${*:-C01 C02 C03 C04 C05 C06 C07 C08 C11 C12 C13 C16 C17 C18 C19 C20}"
cd /repo || exit 2
if [ -n "$(git status --porcelain -- src)" ]; then echo "/repo/src is dirty; refusing"; exit 2; fi
git apply --check "$D/patch.diff" || { echo "patch does not apply"; exit 2; }
git apply "$D/patch.diff"
OUT="$D/detection.json"; echo "{" > "$OUT"; first=1
for c in $CHECKS; do
  log=$(cd /verif && VERIF_DIR=/tmp/seeded-run ./check "$c" quick 2>&1); code=$?
  v=$(echo "$log" | grep -m1 "^violation:" | cut -c1-400 | sed 's/\\/\\\\/g; s/"/\\"/g')
  [ $first = 1 ] || echo "," >> "$OUT"; first=0
  printf '  "%s": {"exit": %d, "first_violation": "%s"}' "$c" "$code" "$v" >> "$OUT"
  echo "$c exit=$code $v"
done
echo "" >> "$OUT"; echo "}" >> "$OUT"
git checkout -- . ; git status --porcelain -- src | head -3
