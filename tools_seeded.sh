#!/bin/bash
# tools_seeded.sh <seeded-dir> [checks...]: apply <dir>/patch.diff to /repo, run the quick checks,
# write <dir>/detection.json (which checks raise an alarm), undo the patch. Never commits to /repo.
# DET_ROOT (default /verif) may name a git worktree of /verif's HEAD, so that detection runs use the committed
# machinery while /verif's working tree is being edited.
set -u
D="$(cd "$1" && pwd)"; shift
CHECKS="${*:-C01 C02 C03 C04 C05 C06 C07 C08 C11 C12 C13 C16 C17 C18 C19 C20}"
cd /repo || exit 2
if [ -n "$(git status --porcelain -- src)" ]; then echo "/repo/src is dirty; refusing"; exit 2; fi
git apply --check "$D/patch.diff" || { echo "patch does not apply"; exit 2; }
git apply "$D/patch.diff"
OUT="$D/detection.json"; TMPR=$(mktemp)
for c in $CHECKS; do
  log=$(cd "${DET_ROOT:-/verif}" && VERIF_DIR=/tmp/seeded-run ./check "$c" quick 2>&1); code=$?
  v=$(echo "$log" | grep -m1 "^violation:" | cut -c1-400)
  printf '%s\t%d\t%s\n' "$c" "$code" "$v" >> "$TMPR"
  echo "$c exit=$code $v"
done
# merge into the existing detection.json (checks not re-run keep their earlier entry)
python3 - "$OUT" "$TMPR" <<'PY'
import json, sys, os
out, tmp = sys.argv[1], sys.argv[2]
d = {}
if os.path.exists(out):
    try: d = json.load(open(out))
    except Exception: d = {}
for line in open(tmp, encoding="utf-8", errors="replace"):
    c, code, v = line.rstrip("\n").split("\t", 2)
    d[c] = {"exit": int(code), "first_violation": v}
json.dump(dict(sorted(d.items())), open(out, "w"), indent=1)
PY
rm -f "$TMPR"
git checkout -- . ; git status --porcelain -- src | head -3
